SPECIFICATION MCSpec
CONSTRAINT Emit
INVARIANT HistoryIndependent
INVARIANT InvStartsAtZero
INVARIANT InvTiles
INVARIANT InvUniqueNames
INVARIANT InvLenIsWireWidth
INVARIANT InvTotal
INVARIANT InvOptionsOnOwnLeaf
INVARIANT CursorIsEnd
INVARIANT RefusedIffUnlayable
