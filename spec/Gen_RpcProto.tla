----------------------------- MODULE Gen_RpcProto -----------------------------
(* Spec -> code: every behaviour of the RpcProto machine up to Depth steps on    *)
(* the selected net (no calling discipline: the code must follow the machine      *)
(* also where the design gives wrong answers), printed with the observable state  *)
(* the specification predicts after the last step.  Steps on an empty receive     *)
(* queue are included (the real Step() returns without doing anything).           *)
EXTENDS RpcProto, RpcNets, IOUtils, TLC, Json
VARIABLES hist
vars == <<rvars, hist>>
Which == IOEnv.RPC_NET
Depth == CASE IOEnv.RPC_DEPTH = "3" -> 3 [] IOEnv.RPC_DEPTH = "4" -> 4 [] IOEnv.RPC_DEPTH = "5" -> 5
           [] IOEnv.RPC_DEPTH = "6" -> 6 [] IOEnv.RPC_DEPTH = "7" -> 7 [] OTHER -> 8
Net == CASE Which = "p2p"  -> P2P("none", 8)
         [] Which = "bus"  -> Bus("none", 8)
         [] Which = "twin" -> Twin("none", 8)
         [] Which = "twinc" -> TwinC("none", 8)
         [] Which = "fan"  -> Fan("none", 8)
Init == RInit(Net) /\ hist = <<>>
Log(a, p, m, x) == hist' = Append(hist, [a |-> a, p |-> p, m |-> m, x |-> x])
Next == /\ Len(hist) < Depth
        /\ \/ \E c \in ClientNames : \E mi \in 1..Len(Svc(Client(c).svc).methods) : \E x \in Range(net.seeds) :
                 Call(c, mi, x) /\ Log("call", c, Svc(Client(c).svc).methods[mi].name, x)
           \/ \E c \in ClientNames : (IF inbox[c] = <<>> THEN UNCHANGED rvars ELSE ClientStep(c)) /\ Log("cstep", c, "", 0)
           \/ \E b \in BrokerNames : (IF inbox[b] = <<>> THEN UNCHANGED rvars ELSE BrokerStep(b)) /\ Log("bstep", b, "", 0)
Spec == Init /\ [][Next]_vars
Emit == IF hist = <<>> THEN PrintT("OUT " \o ToJson([kind |-> "net", net |-> net]))
        ELSE PrintT("OUT " \o ToJson([kind |-> "hist", hist |-> hist, obs |-> Obs, correct |-> Correct, broken |-> ~NoBroken]))
=============================================================================
