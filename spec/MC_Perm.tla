------------------------------- MODULE MC_Perm -------------------------------
(***************************************************************************)
(* Field ids, not declaration order, fix the wire order (C15).  One schema *)
(* holds, for every base struct of 2..4 fields of mixed widths, ALL        *)
(* permutations of its declaration order as twin structs (ids kept).       *)
(* TLC checks that every twin has the same canonical encoding, the same    *)
(* packed layout, the same DBC message and the same C frame as the first   *)
(* twin, and emits per twin what each back end must produce.               *)
(***************************************************************************)
EXTENDS CFrame, WireGen, IOUtils
VARIABLES stage, S, k, v
vars == <<stage, S, k, v>>

(* field ids by position: with id 0 not in front (2 fields), sparse ids beyond one byte around an id 0 (3 fields), small ids (4) *)
IdsFor(n) == CASE n = 2 -> <<3, 0>> [] n = 3 -> <<300, 0, 256>> [] OTHER -> <<4, 1, 7, 2>>
CanTypes  == << U(3), I(12), U(8), En("Ec"), F32, I(5) >>
WireTypes == << Str, Opt(U(3)), Dyn(I(5)), U(13), F64 >>
(* bases: tuples of field types; the CAN family stays within 64 bits *)
CanBases == { <<CanTypes[1], CanTypes[2]>>, <<CanTypes[5], CanTypes[6]>>, <<CanTypes[4], CanTypes[3]>>,
              <<CanTypes[1], CanTypes[2], CanTypes[3]>>, <<CanTypes[4], CanTypes[5], CanTypes[6]>>, <<CanTypes[2], CanTypes[4], CanTypes[1]>>,
              <<CanTypes[1], CanTypes[2], CanTypes[4], CanTypes[5]>>, <<CanTypes[6], CanTypes[3], CanTypes[2], CanTypes[1]>> }
WireBases == { <<WireTypes[1], CanTypes[1]>>, <<WireTypes[2], CanTypes[2]>>, <<CanTypes[6], WireTypes[3]>>,
               <<WireTypes[1], CanTypes[1], WireTypes[4]>>, <<WireTypes[2], WireTypes[5], CanTypes[6]>>,
               <<CanTypes[1], WireTypes[3], WireTypes[2], WireTypes[4]>> }
FName(i) == <<"fa", "fb", "fc", "fd">>[i]
BaseFields(b) == [i \in 1..Len(b) |-> Field(FName(i), IdsFor(Len(b))[i], b[i], 1)]
PermsOf(n) == SetToSeq(Permutations(1..n))
Twins(b) == LET f == BaseFields(b)  ps == PermsOf(Len(b)) IN
            [j \in 1..Len(ps) |-> [i \in 1..Len(f) |-> f[ps[j][i]]]]

(* embedded structs: every permutation of an inner struct, each embedded (directly and as an array element) in an outer CAN struct *)
InnerBase == <<U(3), I(12), En("Ec")>>
InnerTwins == Twins(InnerBase)
InName(j) == "In" \o ToString(j)
OuterFields(j) == << Field("fa", 4, U(5), 1), Field("fb", 1, St(InName(j)), 1), Field("fc", 7, Arr(St(InName(j)), 2), 1) >>
NOuter == Len(InnerTwins)
CanSeq == SetToSeq(CanBases)
WireSeq == SetToSeq(WireBases)
AllBases == CanSeq \o WireSeq
IsCan(bi) == (bi >= 1 /\ bi <= Len(CanSeq)) \/ bi = Len(CanSeq) + Len(WireSeq) + 1
TName(bi, j) == "T" \o ToString(bi) \o "p" \o ToString(j)
OuterBase == Len(AllBases) + 1       \* base number of the embedded-struct family
StructsOf == [j \in 1..NOuter |-> [name |-> InName(j), fields |-> InnerTwins[j], base |-> 0, twin |-> j]]
             \o Flat([bi \in 1..Len(AllBases) |->
                [j \in 1..Len(Twins(AllBases[bi])) |-> [name |-> TName(bi, j), fields |-> Twins(AllBases[bi])[j], base |-> bi, twin |-> j]]])
             \o [j \in 1..NOuter |-> [name |-> TName(OuterBase, j), fields |-> OuterFields(j), base |-> OuterBase, twin |-> j]]
PermSchema ==
    LET sts == StructsOf IN
    [structs |-> [i \in 1..Len(sts) |-> [name |-> sts[i].name, fields |-> sts[i].fields]],
     enums |-> Enums,
     impls |-> SelectSeq([i \in 1..Len(sts) |->
                  [name |-> sts[i].name, protocol |-> IF IsCan(sts[i].base) THEN "can" ELSE "none", type |-> sts[i].name,
                   fields |-> << [name |-> "id", value |-> [i |-> i]], [name |-> "device", value |-> [s |-> "ecu"]] >>,
                   signals |-> <<>>]], LAMBDA im : im.protocol = "can"),
     meta |-> [i \in 1..Len(sts) |-> [base |-> sts[i].base, twin |-> sts[i].twin]]]

Init == stage = 0 /\ S = PermSchema /\ k = 0 /\ v = <<>>
Next == \/ stage = 0 /\ stage' = 1 /\ k' \in {i \in 1..Len(S.structs) : S.meta[i].base # 0} /\ v' = <<>> /\ S' = S
        \/ stage = 1 /\ stage' = 2 /\ k' = k /\ S' = S /\ v' \in Vals(S, St(S.structs[k].name), 1)
Spec == Init /\ [][Next]_vars

Name == S.structs[k].name
First == TName(S.meta[k].base, 1)
HasCan == IsCan(S.meta[k].base)
Impl(n) == FirstNamed(S.impls, n)
(* the same value given to the first twin: same field names, so the same function *)
SameCanon == stage = 2 => CanonBytes(S, Name, v) = CanonBytes(S, First, v)
ProjLeaf(l) == [name |-> l.name, start |-> l.start, len |-> l.len]
SameLayout == (stage >= 1 /\ HasCan) =>
    LET a == LayoutOf(S, Impl(Name), TRUE)  b == LayoutOf(S, Impl(First), TRUE) IN
    [i \in 1..Len(a) |-> ProjLeaf(a[i])] = [i \in 1..Len(b) |-> ProjLeaf(b[i])]
SameDbc == (stage >= 1 /\ HasCan) =>
    DbcMessage(S, Impl(Name)).signals = DbcMessage(S, Impl(First)).signals /\ DbcMessage(S, Impl(Name)).len = DbcMessage(S, Impl(First)).len
SameFrame == (stage = 2 /\ HasCan) => CEncode(S, Impl(Name), v).data = CEncode(S, Impl(First), v).data

Emit == /\ stage = 0 => PrintT("OUT " \o ToJson([kind |-> "schema", schema |-> S]))
        /\ stage = 1 => PrintT("OUT " \o ToJson([kind |-> "struct", struct |-> Name, can |-> IF HasCan THEN 1 ELSE 0,
                                  layout |-> IF HasCan THEN LayoutOf(S, Impl(Name), TRUE) ELSE <<>>,
                                  dbc |-> IF HasCan THEN <<DbcMessage(S, Impl(Name))>> ELSE <<>>]))
        /\ stage = 2 => PrintT("OUT " \o ToJson([kind |-> "case", struct |-> Name, value |-> v, bytes |-> CanonBytes(S, Name, v),
                                  frame |-> IF HasCan THEN <<CEncode(S, Impl(Name), v)>> ELSE <<>>]))
=============================================================================
