---------------------------- MODULE Trace_RpcProto ----------------------------
(* Code -> spec: recorded executions of the generated <S>Proxy / <S>Broker       *)
(* objects (one line per trace: [id, net, events]; event == [a, p, m, x, obs])    *)
(* are replayed through the RpcProto machine.  Each event must be the step the    *)
(* specification takes from the state reached so far and must lead to the         *)
(* observable state that was logged after the call returned (whole receive        *)
(* queues and every future).  On the first mismatch the trace stops and the       *)
(* verdict names what differed.                                                    *)
EXTENDS RpcProto, Json, IOUtils, TLC
VARIABLES tr, l, bad          \* tr: the trace being replayed (held in the state: the file is read once, not at every step)
vars == <<rvars, tr, l, bad>>
Traces == ndJsonDeserialize(IOEnv.TRACE_FILE)
Init == /\ tr \in {Traces[i] : i \in 1..Len(Traces)}
        /\ RInit(tr.net)
        /\ l = 1 /\ bad = ""
Ev == tr.events[l]
MethodIdx(c, name) == {i \in 1..Len(Svc(Client(c).svc).methods) : Svc(Client(c).svc).methods[i].name = name}
Step ==
    CASE Ev.a = "call"  -> \E mi \in MethodIdx(Ev.p, Ev.m) : Call(Ev.p, mi, Ev.x)
      [] Ev.a = "cstep" -> IF inbox[Ev.p] = <<>> THEN UNCHANGED rvars ELSE ClientStep(Ev.p)
      [] Ev.a = "bstep" -> IF inbox[Ev.p] = <<>> THEN UNCHANGED rvars ELSE BrokerStep(Ev.p)
Next == /\ bad = "" /\ l <= Len(tr.events)
        /\ Step
        /\ bad' = IF Obs'.inbox # Ev.obs.inbox THEN "receive-queues-differ"
                  ELSE IF Obs'.futs # Ev.obs.futs THEN "futures-differ" ELSE ""
        /\ l' = l + 1 /\ tr' = tr
Spec == Init /\ [][Next]_vars
Done == bad # "" \/ l > Len(tr.events)
Judge == Done => PrintT("VERDICT " \o ToJson([id |-> tr.id, clause |-> IF bad = "" THEN "ok" ELSE bad, at |-> l - 1,
                                              expected |-> Obs]))
=============================================================================
