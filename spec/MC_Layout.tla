------------------------------ MODULE MC_Layout ------------------------------
EXTENDS LayoutM, LayoutGen, IOUtils

MaxCalls == IF IOEnv.LAYOUT_CALLS = "2" THEN 2 ELSE IF IOEnv.LAYOUT_CALLS = "3" THEN 3 ELSE 4
EmitOn == IOEnv.LAYOUT_EMIT = "1"
AllSchemas == Schemas2 \cup {S \in Schemas3 : \A i, j \in 1..3 : i # j => S.structs[2].fields[i].id # S.structs[2].fields[j].id}

MCInit == \E S \in AllSchemas : \E u \in BOOLEAN : LInit(S, u)     \* arrays of structs without unrolling included: those calls are refused
MCNext == LNext(Range(Impls), MaxCalls)
MCSpec == MCInit /\ [][MCNext]_lvars

(* one line per completed history of maximal length: the call sequence and what each call must return *)
Emit == (EmitOn /\ pc = "idle" /\ Len(calls) = MaxCalls)
           => PrintT("OUT " \o ToJson([schema |-> sch, unroll |-> IF unroll THEN 1 ELSE 0,
                                        calls |-> calls, rets |-> rets]))
=============================================================================
