SPECIFICATION TSpec
CONSTRAINT Judge
