------------------------------- MODULE Gen_Rpc -------------------------------
(* schemas with services (names in several spelling conventions, shared and     *)
(* distinct payload structs), the rpc-extended schema and, per wrapper struct    *)
(* and value, its canonical bytes                                                *)
EXTENDS Rpc, WireGen
VARIABLES stage, S, X, k, v
vars == <<stage, S, X, k, v>>

Fd(n, id, t) == [name |-> n, id |-> id, type |-> t, gd |-> 1]
Payloads == << [name |-> "Sa", fields |-> <<Fd("a", 0, U(3)), Fd("b", 1, I(12))>>],
               [name |-> "Sb", fields |-> <<Fd("s", 0, Str)>>],
               [name |-> "Sc", fields |-> <<Fd("o", 1, Opt(U(8))), Fd("e", 0, En("Ec"))>>] >>
M(n, id, i, o) == [name |-> n, id |-> id, input |-> i, output |-> o]
Svc(n, id, ms) == [name |-> n, id |-> id, methods |-> ms]
ServiceSets ==
    { << Svc("Control", 1, <<M("set", 0, "Sa", "Sb")>>) >>,
      << Svc("MotorControl", 3, <<M("set", 0, "Sa", "Sb"), M("get", 5, "Sb", "Sa")>>) >>,
      << Svc("motor_control", 0, <<M("ping", 1, "Sc", "Sc")>>), Svc("Other", 254, <<M("m", 255, "Sa", "Sb")>>) >>,
      << Svc("Alpha", 1, <<M("x", 0, "Sa", "Sb")>>), Svc("Beta", 2, <<M("y", 1, "Sa", "Sb"), M("z", 2, "Sc", "Sb")>>) >>,   \* shared payloads
      << Svc("X1", 255, <<M("a", 0, "Sa", "Sa"), M("b", 1, "Sb", "Sb"), M("c", 2, "Sc", "Sa")>>) >> }
MkR(svcs) == [structs |-> Payloads, enums |-> Enums, services |-> svcs]

Init == stage = 0 /\ S = <<>> /\ X = <<>> /\ k = 0 /\ v = <<>>
Next == \/ stage = 0 /\ stage' = 1 /\ (\E sv \in ServiceSets : S' = MkR(sv) /\ X' = RpcExtend(MkR(sv))) /\ k' = 0 /\ v' = <<>>
        \/ stage = 1 /\ stage' = 2 /\ k' \in (Len(S.structs) + 1)..Len(X.structs) /\ v' = <<>> /\ UNCHANGED <<S, X>>
        \/ stage = 2 /\ stage' = 3 /\ v' \in Vals(X, St(X.structs[k].name), 1) /\ UNCHANGED <<S, X, k>>
Spec == Init /\ [][Next]_vars
InvIds == stage >= 1 => IdsAreBytes(S)
RoundTrip == stage = 3 => LET p == ParseBytes(X, X.structs[k].name, CanonBytes(X, X.structs[k].name, v)) IN p.ok /\ p.v = v
Emit == /\ stage = 1 => PrintT("OUT " \o ToJson([kind |-> "schema", schema |-> S, extended |-> X]))
        /\ stage = 3 => PrintT("OUT " \o ToJson([kind |-> "case", services |-> S.services, struct |-> X.structs[k].name,
                                                 value |-> v, bytes |-> CanonBytes(X, X.structs[k].name, v)]))
=============================================================================
