------------------------------ MODULE LayoutGen ------------------------------
(* Bounded universe of fixed-size schemas with CAN bindings for the packed  *)
(* layout: leaf widths, enums of several maxima (widths 1,2,3,5,8), nested  *)
(* structs, arrays of scalars / structs / arrays, field ids permuted        *)
(* against declaration order, signal blocks.                                *)
EXTENDS Layout, Json

U(w)    == [k |-> "u", w |-> w]
I(w)    == [k |-> "i", w |-> w]
F32     == [k |-> "f32"]
F64     == [k |-> "f64"]
Arr(t, n) == [k |-> "arr", t |-> t, n |-> n]
En(n)   == [k |-> "enum", name |-> n]
St(n)   == [k |-> "struct", name |-> n]

EItem(n, v) == [name |-> n, value |-> IntOfNat(v)]
Enums == << [name |-> "Ea", items |-> <<EItem("Xa", 0), EItem("Xb", 1)>>],          \* width 1
            [name |-> "Eb", items |-> <<EItem("Ya", 0), EItem("Yb", 2)>>],          \* width 2
            [name |-> "Ec", items |-> <<EItem("Za", 1), EItem("Zb", 5), EItem("Zc", 3)>>],   \* width 3
            [name |-> "Ed", items |-> <<EItem("Wa", 17), EItem("Wb", 4)>>],         \* width 5
            [name |-> "Ee", items |-> <<EItem("Va", 0), EItem("Vb", 255)>>],        \* width 8
            [name |-> "Ef", items |-> <<EItem("Ta", 7), EItem("Tb", 0)>>],          \* width 3 (max 7)
            [name |-> "Eg", items |-> <<EItem("Sa0", 0)>>] >>                        \* a single enumerator 0: width 1

Field(n, id, t)    == [name |-> n, id |-> id, type |-> t]
FieldU(n, id, t, u) == [name |-> n, id |-> id, type |-> t, unit |-> <<u>>]

Inner == [name |-> "Sin", fields |-> <<FieldU("p", 1, I(7), "V"), Field("q", 0, En("Ec"))>>]

SigF(n, v) == [name |-> n, value |-> v]
ImplRoot == [name |-> "Root", protocol |-> "can", type |-> "Root",
             fields |-> <<SigF("id", [i |-> 10])>>, signals |-> <<>>]
ImplSin  == [name |-> "SinMsg", protocol |-> "can", type |-> "Sin",
             fields |-> <<SigF("id", [i |-> 11])>>,
             signals |-> << [name |-> "q", fields |-> <<SigF("endianess", [s |-> "big"])>>] >>]
ImplR2   == [name |-> "R2", protocol |-> "can", type |-> "Root",
             fields |-> <<SigF("id", [i |-> 12]), SigF("device", [s |-> "ecu"])>>,
             signals |-> << [name |-> "a", fields |-> <<SigF("mux_count", [i |-> 4]), SigF("mux_signal", [s |-> "b"])>>],
                            [name |-> "p", fields |-> <<SigF("endianess", [s |-> "big"])>>],
                            [name |-> "a_0", fields |-> <<SigF("scale", [f |-> "0.5"])>>] >>]
(* a binding of the same struct under ANOTHER protocol carries the same NAME (the parser names a binding after its struct unless
   `as` is given) - and other per-signal options *)
ImplRootU == [name |-> "Root", protocol |-> "uart", type |-> "Root", fields |-> <<>>,
              signals |-> << [name |-> "a", fields |-> <<SigF("endianess", [s |-> "big"])>>],
                             [name |-> "b", fields |-> <<SigF("mux_count", [i |-> 2]), SigF("mux_signal", [s |-> "a"])>>] >>]
Impls == <<ImplRoot, ImplSin, ImplR2, ImplRootU>>

LeafPool == { U(1), U(5), U(8), U(16), I(7), F32, En("Ea"), En("Eb"), En("Ec"), En("Ed"), En("Ee"), En("Ef"), En("Eg") }
ScalarArr == { Arr(t, 2) : t \in {U(5), I(7), En("Ec")} } \cup { Arr(Arr(U(5), 2), 2) }
StructTs  == { St("Sin"), Arr(St("Sin"), 2) }
TypePool  == LeafPool \cup ScalarArr \cup StructTs

Mk(fields) == [structs |-> <<Inner, [name |-> "Root", fields |-> fields]>>, enums |-> Enums, impls |-> Impls]

(* two fields, ids in and against declaration order; non-unrolled arrays of structs are outside the domain *)
Schemas2 == { Mk(<<FieldU("a", ia, ta, "m"), Field("b", 1 - ia, tb)>>) : ta \in TypePool, tb \in TypePool, ia \in {0, 1} }
Schemas3 == { Mk(<<Field("a", ia, ta), Field("b", ib, St("Sin")), Field("c", 3 - ia - ib, tc)>>) :
                 ta \in {U(5), En("Ed")}, tc \in {I(7), Arr(U(5), 2), Arr(St("Sin"), 2)},
                 ia \in 0..2, ib \in (0..2) }
UnrollOk(S, u) == u \/ \A st \in Range(S.structs) : \A i \in 1..Len(st.fields) :
                         ~(st.fields[i].type.k = "arr" /\ st.fields[i].type.t.k \in {"struct"})
=============================================================================
