----------------------------- MODULE Trace_CFrame -----------------------------
(***************************************************************************)
(* Code -> spec for the generated C: recorded calls of the compiled        *)
(* can_encode_msg_<m> / can_decode_msg_<m> are judged by CFrame.           *)
(*  kind "enc": [schema, impl, value, id, dlc, data]                        *)
(*  kind "dec": [schema, impl, data, value]     (value: field -> value)     *)
(* The enc verdict also returns the specified frame so that the harness    *)
(* can feed the SPECIFIED bytes to the generated decoder.                   *)
(***************************************************************************)
EXTENDS CFrame, Batch, Json, IOUtils

Events == ndJsonDeserialize(IOEnv.TRACE_FILE)
N == Len(Events)
Chunk == 64

ImplOf(e) == FirstNamed(e.schema.impls, e.impl)
EncVerdict(e) ==
    LET impl == ImplOf(e)
        x == CEncode(e.schema, impl, e.value) IN
    [id |-> e.id,
     clause |-> IF ~InCSubset(e.schema, impl) \/ ~InRange(e.schema, StructT(impl.type), e.value) THEN "glue:outside-domain"
                ELSE IF e.fid # x.id THEN "enc:id"
                ELSE IF e.dlc # x.dlc THEN "enc:dlc"
                ELSE IF e.data # x.data THEN "enc:data"
                ELSE "ok",
     frame |-> x]
DecVerdict(e) ==
    LET impl == ImplOf(e)
        x == CDecode(e.schema, impl, e.data) IN
    [id |-> e.id,
     clause |-> IF DOMAIN x # DOMAIN e.value THEN "dec:field-set"
                ELSE IF x = e.value THEN "ok" ELSE "dec:value"]
Verdict(e) == IF e.kind = "enc" THEN EncVerdict(e) ELSE DecVerdict(e)

TSpec == BInit /\ [][BNext(N, Chunk)]_bvars
Judge == stage = 2 => PrintT("VERDICT " \o ToJson(Verdict(Events[idx])))
=============================================================================
