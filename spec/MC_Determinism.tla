--------------------------- MODULE MC_Determinism ---------------------------
(* all operation sequences of bounded length in one process; the histories    *)
(* ending in a Generate are printed for the harness to run                    *)
EXTENDS Determinism, Json, IOUtils
MaxLen == IF IOEnv.DET_LEN = "5" THEN 5 ELSE IF IOEnv.DET_LEN = "4" THEN 4 ELSE 3
Outs == {"o1", "o2"}
Init == DInit
Next == /\ Len(hist) < MaxLen
        /\ \/ \E s \in Schemas : Parse(s)
           \/ ParseBad
           \/ \E g \in Gens : \E s \in Schemas : \E m \in {"fresh", "reused"} : \E o \in Outs : Generate(g, s, m, o)
Spec == Init /\ [][Next]_dvars
Emit == (hist # <<>> /\ hist[Len(hist)].op = "generate" /\ \A i \in 1..Len(hist) : hist[i].op = "generate" => hist[i].out = "o1")
            => PrintT("OUT " \o ToJson([hist |-> hist]))
=============================================================================
