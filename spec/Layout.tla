------------------------------- MODULE Layout -------------------------------
(***************************************************************************)
(* The packed CAN layout (fcp.encoding.PackedEncoder): a bit cursor walks  *)
(* the flattened fields of a fixed-size struct in ascending field id and   *)
(* gives every leaf a bit range.  Big-step form only (constant level):     *)
(* LayoutOf(sch, impl, unroll).  The small-step machine with the encoder   *)
(* object's persistent state is LayoutM.                                   *)
(*                                                                         *)
(* leaf == [name, own, start, len, endian, ext, unit, type]                *)
(*   name   hierarchical: nested struct fields joined by "::", unrolled    *)
(*          array elements suffixed _i                                     *)
(*   ext    the fields of the signal block whose name equals the leaf's    *)
(*          own (last segment) name, else <<>>                             *)
(*   unit   <<>> or <<u>>                                                  *)
(***************************************************************************)
EXTENDS FcpSchema, TLC

GetSignal(impl, n) ==
    IF HasName(impl.signals, n) THEN FirstNamed(impl.signals, n).fields ELSE <<>>

LookupField(fields, n, default) ==
    IF HasName(fields, n) THEN FirstNamed(fields, n).value ELSE default

EndianOf(ext) ==
    LET v == LookupField(ext, "endianess", [s |-> "little"]) IN
    IF "s" \in DOMAIN v THEN v.s ELSE IF "id" \in DOMAIN v THEN v.id ELSE "little"

(* uprefix: the same hierarchical prefix with "::" written "_" (DBC / C identifiers) *)
Item(t, own, prefix, uprefix, unit) ==
    [t |-> t, own |-> own, prefix |-> prefix, uprefix |-> uprefix, unit |-> unit]

Leaf(sch, impl, it, start) ==
    LET ext == GetSignal(impl, it.own) IN
    [name |-> it.prefix \o it.own, uname |-> it.uprefix \o it.own, own |-> it.own, start |-> start, len |-> BitsOf(sch, it.t),
     endian |-> EndianOf(ext), ext |-> ext, unit |-> it.unit, type |-> it.t]

(* children of a composite item, in layout order *)
Children(sch, it, unroll, isRoot) ==
    CASE it.t.k = "struct" ->
            LET fs == SortedById(GetStruct(sch, it.t.name).fields)
                pre == IF isRoot THEN "" ELSE it.prefix \o it.own \o "::"
                upre == IF isRoot THEN "" ELSE it.uprefix \o it.own \o "_" IN
            [i \in 1..Len(fs) |->
                Item(fs[i].type, fs[i].name, pre, upre,
                     IF "unit" \in DOMAIN fs[i] THEN fs[i].unit ELSE <<>>)]
      [] it.t.k = "arr" /\ unroll ->
            [i \in 1..it.t.n |->
                Item(it.t.t, it.own \o "_" \o ToString(i - 1), it.prefix, it.uprefix, it.unit)]

IsComposite(it, unroll) == it.t.k = "struct" \/ (it.t.k = "arr" /\ unroll)

(* a leaf item whose width the encoder can compute (_get_type_length): scalars and arrays of them; a struct below an array
   that is not unrolled, a string, a dynamic array or an optional make the call raise - the binding is refused *)
RECURSIVE Measurable(_)
Measurable(t) == CASE t.k \in {"u", "i", "f32", "f64", "enum"} -> TRUE
                   [] t.k = "arr" -> Measurable(t.t)
                   [] OTHER -> FALSE
RECURSIVE AllMeasurable(_, _, _)
AllMeasurable(sch, unroll, work) ==
    IF work = <<>> THEN TRUE
    ELSE IF IsComposite(work[1], unroll) THEN AllMeasurable(sch, unroll, Children(sch, work[1], unroll, FALSE) \o Tail(work))
    ELSE Measurable(work[1].t) /\ AllMeasurable(sch, unroll, Tail(work))

RECURSIVE Walk(_, _, _, _, _)
(* work: stack of items; acc: leaves so far *)
Walk(sch, impl, unroll, work, acc) ==
    IF work = <<>> THEN acc
    ELSE LET it == work[1] IN
         IF IsComposite(it, unroll)
         THEN Walk(sch, impl, unroll, Children(sch, it, unroll, FALSE) \o Tail(work), acc)
         ELSE LET start == IF acc = <<>> THEN 0 ELSE acc[Len(acc)].start + acc[Len(acc)].len IN
              Walk(sch, impl, unroll, Tail(work), Append(acc, Leaf(sch, impl, it, start)))

RootItem(impl) == Item(StructT(impl.type), "", "", "", <<>>)

LayoutOf(sch, impl, unroll) ==
    Walk(sch, impl, unroll, Children(sch, RootItem(impl), unroll, TRUE), <<>>)

(* the bindings generate() lays out; every other binding makes it raise *)
Layable(sch, impl, unroll) ==
    HasName(sch.structs, impl.type) /\ AllMeasurable(sch, unroll, Children(sch, RootItem(impl), unroll, TRUE))

LayoutBits(lay) == IF lay = <<>> THEN 0 ELSE lay[Len(lay)].start + lay[Len(lay)].len

(* what fits a classic CAN frame *)
Fits(sch, impl) == /\ HasName(sch.structs, impl.type)
                   /\ FixedSize(sch, StructT(impl.type))
                   /\ BitsOf(sch, StructT(impl.type)) <= 64

(* ------------------------------------------------ properties of a layout *)
StartsAtZero(lay)  == lay # <<>> => lay[1].start = 0
Tiles(lay)         == \A i \in 1..(Len(lay) - 1) : lay[i + 1].start = lay[i].start + lay[i].len
UniqueNames(lay)   == \A i, j \in 1..Len(lay) : lay[i].name = lay[j].name => i = j
LenIsWireWidth(sch, lay) ==
    \A i \in 1..Len(lay) : lay[i].len = BitsOf(sch, lay[i].type) /\ lay[i].len > 0
TotalIsStructSize(sch, impl, lay) == LayoutBits(lay) = BitsOf(sch, StructT(impl.type))
=============================================================================
