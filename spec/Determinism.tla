----------------------------- MODULE Determinism -----------------------------
(***************************************************************************)
(* Generated artefacts are a function of (generator, schema) alone.        *)
(* A process has hidden state that could leak into an output: the hash     *)
(* seed, mutable defaults shared between objects, trees that earlier       *)
(* generate calls may have modified, loggers that remember failed parses.  *)
(* The specification makes that state irrelevant: memo[g, s] holds the     *)
(* output first observed for (g, s) - in any process, under any seed,      *)
(* after any history - and Generate is only enabled with that output.      *)
(* An output is the SET of (relative path, contents with the generation    *)
(* stamp line masked); the harness canonicalises it to one digest.         *)
(***************************************************************************)
EXTENDS Naturals, Sequences, TLC

CONSTANTS Schemas, Gens
None == "none"

VARIABLES memo,     \* <<g, s>> -> digest | None        (global: shared by all processes)
          parsed,   \* schemas for which this process holds a parsed tree
          hist      \* the operations of this process
dvars == <<memo, parsed, hist>>

DInit == /\ memo = [k \in Gens \X Schemas |-> None]
         /\ parsed = {} /\ hist = <<>>

Parse(s) == /\ parsed' = parsed \cup {s}
            /\ hist' = Append(hist, [op |-> "parse", s |-> s])
            /\ UNCHANGED memo
ParseBad == /\ hist' = Append(hist, [op |-> "parsebad"])
            /\ UNCHANGED <<memo, parsed>>
(* mode "fresh": parse anew and generate; "reused": generate from the tree parsed earlier in this process *)
Generate(g, s, mode, o) ==
    /\ mode = "reused" => s \in parsed
    /\ memo[<<g, s>>] \in {None, o}                  \* the only output allowed is the one seen before
    /\ memo' = [memo EXCEPT ![<<g, s>>] = o]
    /\ hist' = Append(hist, [op |-> "generate", g |-> g, s |-> s, mode |-> mode, out |-> o])
    /\ UNCHANGED parsed
NewProcess == /\ parsed' = {} /\ hist' = <<>> /\ UNCHANGED memo

Deterministic == \A i, j \in 1..Len(hist) :
                    (hist[i].op = "generate" /\ hist[j].op = "generate" /\ hist[i].g = hist[j].g /\ hist[i].s = hist[j].s)
                        => hist[i].out = hist[j].out
=============================================================================
