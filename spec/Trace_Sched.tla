------------------------------ MODULE Trace_Sched ------------------------------
(***************************************************************************)
(* Code -> spec for the generated C scheduler: a recorded history of one    *)
(* process (one fork of the compiled driver) is replayed through the Sched  *)
(* machine.  trace == [id, device, events], event == [op = "T", t, sent] |  *)
(* [op = "V", msg, value].  Each event must be the step the specification   *)
(* takes from the state reached so far: Call(t) with sent' equal to the     *)
(* frames the send callback really received, or SetVal.  On the first       *)
(* mismatch the trace stops with bad = index; verdicts are printed when a   *)
(* trace ends.  The traces of a batch are independent; TLC's workers take   *)
(* them in parallel.                                                        *)
(***************************************************************************)
EXTENDS Sched, Json, IOUtils
VARIABLES tid, l, bad
vars == <<svars, tid, l, bad>>

Traces == ndJsonDeserialize(IOEnv.TRACE_FILE)

Init == /\ tid \in 1..Len(Traces)
        /\ SInit(Traces[tid].device, Traces[tid].dev)
        /\ l = 1 /\ bad = ""

Ev == Traces[tid].events[l]
ObsFrames(e) == [i \in 1..Len(e.sent) |-> [msg |-> e.sent[i].msg, frame |-> e.sent[i].frame]]

TraceCall ==
    /\ Ev.op = "T"
    /\ Call(Ev.t)
    /\ bad' = IF Len(sent') # Len(Ev.sent) THEN "frame-count"
              ELSE IF [i \in 1..Len(sent') |-> sent'[i].msg] # [i \in 1..Len(Ev.sent) |-> Ev.sent[i].msg] THEN "which-messages"
              ELSE IF sent' # ObsFrames(Ev) THEN "frame-contents"
              ELSE ""
TraceSet ==
    /\ Ev.op = "V"
    /\ SetVal(Ev.msg, Ev.value)
    /\ bad' = ""
Next == /\ bad = "" /\ l <= Len(Traces[tid].events)
        /\ (TraceCall \/ TraceSet)
        /\ l' = l + 1 /\ tid' = tid
Spec == Init /\ [][Next]_vars

Done == bad # "" \/ l > Len(Traces[tid].events)
Judge == Done => PrintT("VERDICT " \o ToJson([id |-> Traces[tid].id, clause |-> IF bad = "" THEN "ok" ELSE bad,
                                              at |-> l - 1, expected |-> sent]))
=============================================================================
