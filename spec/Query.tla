------------------------------- MODULE Query -------------------------------
(***************************************************************************)
(* Extension beyond the listed properties: the query functions of FcpV2    *)
(* that every generator plug-in navigates the tree with                    *)
(*   get_type, get_matching_impl, get_matching_impls_or_default,           *)
(*   get_protocols, get_xpath (+ the Xpath text form of fcp.xpath)         *)
(* modelled AS THE CODE DOES IT (first declaration wins, structs before    *)
(* enums, the inner loop of get_xpath neither breaks nor fails when a      *)
(* name is missing), so that the replay is exact; the idealised meaning    *)
(* (Descend) is stated next to it and TLC settles where the two agree.     *)
(*                                                                         *)
(* Outcomes of get_xpath:  [t |-> "invalid"]   Err("Invalid xpath format") *)
(*                         [t |-> "notfound"]  Err("Field not found")      *)
(*                         [t |-> "raise"]     an exception leaves the call*)
(*                         [t |-> "ok", s, i]  Ok(field i of struct no. s) *)
(***************************************************************************)
EXTENDS FcpSchema

Invalid  == [t |-> "invalid"]
NotFound == [t |-> "notfound"]
Raise    == [t |-> "raise"]
Found(s, i) == [t |-> "ok", s |-> s, i |-> i]

(* a node of the tree: [k |-> "struct"|"enum", n |-> index in that list] | [k |-> "none"] *)
NoNode == [k |-> "none"]
RaiseNode == [k |-> "raise"]
None == [t |-> "none"]
FirstIdx(seq, n) == CHOOSE i \in 1..Len(seq) : seq[i].name = n /\ \A j \in 1..(i - 1) : seq[j].name # n

(* FcpV2.get_struct *)
StructNode(sch, n) == IF HasName(sch.structs, n) THEN [k |-> "struct", n |-> FirstIdx(sch.structs, n)] ELSE NoNode

(* FcpV2.get_type: structs + enums searched in that order; only a StructType or an EnumType has a node, and the KIND of the
   reference is not compared with the kind of the declaration *)
TypeNode(sch, t) ==
    IF t.k \notin {"struct", "enum"} THEN NoNode
    ELSE IF HasName(sch.structs, t.name) THEN [k |-> "struct", n |-> FirstIdx(sch.structs, t.name)]
    ELSE IF HasName(sch.enums, t.name) THEN [k |-> "enum", n |-> FirstIdx(sch.enums, t.name)]
    ELSE NoNode

(* one pass of the inner loop "for field in struct.fields: if field.name == name: struct = get_type(field.type).unwrap()":
   the fields iterated are those of the node the pass started with; every match re-assigns (the last match wins), a match whose
   type has no node raises at once; no match leaves the node as it was.  Result: a node, or "raise" *)
RECURSIVE Pass(_, _, _, _, _)
Pass(sch, fs, i, name, cur) ==
    IF i > Len(fs) THEN cur
    ELSE IF fs[i].name = name
         THEN LET nd == TypeNode(sch, fs[i].type) IN
              IF nd = NoNode THEN RaiseNode ELSE Pass(sch, fs, i + 1, name, nd)
         ELSE Pass(sch, fs, i + 1, name, cur)

RECURSIVE Walk(_, _, _, _)
(* the outer loop over path[1..Len-1]; an enum node has no .fields: AttributeError *)
Walk(sch, node, path, i) ==
    IF i > Len(path) - 1 THEN node
    ELSE IF node.k # "struct" THEN RaiseNode
    ELSE LET nx == Pass(sch, sch.structs[node.n].fields, 1, path[i], node) IN
         IF nx = RaiseNode THEN RaiseNode ELSE Walk(sch, nx, path, i + 1)

(* fcp.xpath.Xpath: the text form  root:p1/p2/..  (str(), and what the constructor splits again); append / the division operator
   add one name at the end *)
RECURSIVE Join(_, _)
Join(path, i) == IF i = Len(path) THEN path[i] ELSE path[i] \o "/" \o Join(path, i + 1)
Text(root, path) == root \o ":" \o Join(path, 1)
Appended(xp, name) == [root |-> xp.root, path |-> Append(xp.path, name)]

(* the regular expression is matched as a PREFIX of "root:p1/p2/..": with names over word characters (or empty) it accepts
   exactly when the root and the first path element are not empty *)
WellFormedText(root, path) == root # "" /\ path[1] # ""

GetXpath(sch, root, path) ==
    IF ~WellFormedText(root, path) THEN Invalid
    ELSE LET st == StructNode(sch, root) IN
         IF st = NoNode THEN Raise
         ELSE LET nd == Walk(sch, st, path, 1) IN
              IF nd = RaiseNode THEN Raise
              ELSE IF nd.k # "struct" THEN Raise
              ELSE LET fs == sch.structs[nd.n].fields IN
                   IF \E i \in 1..Len(fs) : fs[i].name = path[Len(path)]
                   THEN Found(nd.n, CHOOSE i \in 1..Len(fs) : fs[i].name = path[Len(path)] /\ \A j \in 1..(i - 1) : fs[j].name # path[Len(path)])
                   ELSE NotFound

(* ---- the idealised meaning: follow struct-typed fields by name ---- *)
RECURSIVE Descend(_, _, _, _)
(* -> Found(s, i) | "none" *)
Descend(sch, sidx, path, i) ==
    LET fs == sch.structs[sidx].fields IN
    IF ~\E j \in 1..Len(fs) : fs[j].name = path[i] THEN None
    ELSE LET j == CHOOSE j \in 1..Len(fs) : fs[j].name = path[i] /\ \A h \in 1..(j - 1) : fs[h].name # path[i] IN
         IF i = Len(path) THEN Found(sidx, j)
         ELSE IF fs[j].type.k = "struct" /\ HasName(sch.structs, fs[j].type.name)
              THEN Descend(sch, FirstIdx(sch.structs, fs[j].type.name), path, i + 1)
              ELSE None

Ideal(sch, root, path) ==
    IF HasName(sch.structs, root) THEN Descend(sch, FirstIdx(sch.structs, root), path, 1) ELSE None

UniqueFieldNames(sch) == \A s \in 1..Len(sch.structs) : \A i, j \in 1..Len(sch.structs[s].fields) :
                            sch.structs[s].fields[i].name = sch.structs[s].fields[j].name => i = j

(* what a caller can rely on *)
(* 1. a path that really exists is found, and it is THAT field (needs unique field names per struct: otherwise the last of
      two equally named intermediate fields is followed, the first of two equally named final ones returned) *)
RealPathFound(sch, root, path) ==
    (WellFormedText(root, path) /\ UniqueFieldNames(sch) /\ Ideal(sch, root, path) # None) => GetXpath(sch, root, path) = Ideal(sch, root, path)
(* 2. whatever is found carries the last name of the path *)
FoundHasLastName(sch, root, path) ==
    LET r == GetXpath(sch, root, path) IN r.t = "ok" => sch.structs[r.s].fields[r.i].name = path[Len(path)]
(* 3. NOT a law (TLC refutes it, see MC_Query_refute.cfg): "found => the path exists".  A missing intermediate name is skipped *)
FoundOnlyRealPaths(sch, root, path) ==
    GetXpath(sch, root, path).t = "ok" => Ideal(sch, root, path) = GetXpath(sch, root, path)

(* ---- impl selection ---- *)
SelectSeq2(s, P(_)) == LET F[i \in 0..Len(s)] == IF i = 0 THEN <<>> ELSE IF P(s[i]) THEN Append(F[i - 1], i) ELSE F[i - 1] IN F[Len(s)]
(* get_matching_impl(struct, protocol): indices of the impls, in declaration order *)
MatchingImpl(sch, sname, p) == SelectSeq2(sch.impls, LAMBDA im : im.type = sname /\ im.protocol = p)
(* get_matching_impls(protocol) *)
MatchingImpls(sch, p) == SelectSeq2(sch.impls, LAMBDA im : im.protocol = p)
RECURSIVE MIOD(_, _, _)
MIOD(sch, p, s) ==
    IF s > Len(sch.structs) THEN <<>>
    ELSE LET own == MatchingImpl(sch, sch.structs[s].name, p) IN
         (IF own # <<>> THEN own ELSE MatchingImpl(sch, sch.structs[s].name, "default")) \o MIOD(sch, p, s + 1)
(* get_matching_impls_or_default(protocol): in STRUCT order, per struct its bindings for the protocol or else its default ones *)
MatchingImplsOrDefault(sch, p) == MIOD(sch, p, 1)
(* get_protocols(): a set (the list order is that of a Python set) *)
Protocols(sch) == {sch.impls[i].protocol : i \in 1..Len(sch.impls)}

(* FcpV2.get(category): the nodes of one category in a fixed order - declaration order, fields struct by struct, signal blocks
   binding by binding, "type" = structs then enums; an unknown category is Nothing.  Nodes are named by their position:
   <<"struct", i>>, <<"enum", i>>, <<"impl", i>>, <<"field", s, i>>, <<"signal_block", impl, j>>, <<"service", i>>, <<"device", i>> *)
RECURSIVE FlatQ(_)
FlatQ(ss) == IF ss = <<>> THEN <<>> ELSE ss[1] \o FlatQ(Tail(ss))
Categories == {"struct", "enum", "impl", "field", "signal_block", "type", "service", "device"}
Idx(tag, seq) == [i \in 1..Len(seq) |-> <<tag, i>>]
GetCategory(sch, cat) ==
    CASE cat = "struct"  -> Idx("struct", sch.structs)
      [] cat = "enum"    -> Idx("enum", sch.enums)
      [] cat = "impl"    -> Idx("impl", sch.impls)
      [] cat = "service" -> Idx("service", sch.services)
      [] cat = "device"  -> Idx("device", sch.devices)
      [] cat = "type"    -> Idx("struct", sch.structs) \o Idx("enum", sch.enums)
      [] cat = "field"   -> FlatQ([s \in 1..Len(sch.structs) |-> [i \in 1..Len(sch.structs[s].fields) |-> <<"field", s, i>>]])
      [] cat = "signal_block" -> FlatQ([m \in 1..Len(sch.impls) |-> [j \in 1..Len(sch.impls[m].signals) |-> <<"signal_block", m, j>>]])
      [] OTHER -> "nothing"
(* every node of the tree is in exactly one of the primary categories, exactly once *)
NodeCount(sch) == Len(sch.structs) + Len(sch.enums) + Len(sch.impls) + Len(sch.services) + Len(sch.devices)
                  + SeqSum([s \in 1..Len(sch.structs) |-> Len(sch.structs[s].fields)])
                  + SeqSum([m \in 1..Len(sch.impls) |-> Len(sch.impls[m].signals)])
CategoriesPartition(sch) ==
    /\ \A c \in Categories : \A i, j \in 1..Len(GetCategory(sch, c)) : GetCategory(sch, c)[i] = GetCategory(sch, c)[j] => i = j
    /\ SeqSum([k \in 1..7 |-> Len(GetCategory(sch, <<"struct", "enum", "impl", "field", "signal_block", "service", "device">>[k]))]) = NodeCount(sch)
    /\ Len(GetCategory(sch, "type")) = Len(sch.structs) + Len(sch.enums)

(* ---- fcp.type_visitor.TypeVisitor.visit: a fold over a type, as the code does it ----                                          *)
(* struct: the fields of the node get_type finds, visited in ascending field id (sorted() is stable), each under its own name;   *)
(* array / dynamic array / optional: the element type is visited under the EMPTY name (visit's default), the wrapper under the   *)
(* name given; a struct reference without a node raises (Nothing.unwrap()), one that get_type resolves to an ENUM raises too     *)
(* (an Enum has no fields).  The term is the call tree of the free visitor (every hook returns its own arguments).               *)
RaiseT == [v |-> "raise"]
RECURSIVE Visit(_, _, _)
VisitAll(sch, fs) ==   (* the visited fields; ok = FALSE if one of them raises *)
    LET terms == [i \in 1..Len(fs) |-> Visit(sch, fs[i].type, fs[i].name)] IN
    IF \E i \in 1..Len(fs) : terms[i] = RaiseT THEN [ok |-> FALSE, terms |-> <<>>] ELSE [ok |-> TRUE, terms |-> terms]
Visit(sch, t, name) ==
    CASE t.k = "struct" ->
            LET nd == TypeNode(sch, t) IN
            IF nd.k # "struct" THEN RaiseT
            ELSE LET fields == VisitAll(sch, SortedById(sch.structs[nd.n].fields)) IN
                 IF ~fields.ok THEN RaiseT ELSE [v |-> "struct", name |-> name, t |-> t.name, fields |-> fields.terms]
      [] t.k = "enum" -> [v |-> "enum", name |-> name, t |-> t.name]
      [] t.k = "u"    -> [v |-> "unsigned", name |-> name, w |-> t.w]
      [] t.k = "i"    -> [v |-> "signed", name |-> name, w |-> t.w]
      [] t.k = "f32"  -> [v |-> "float", name |-> name]
      [] t.k = "f64"  -> [v |-> "double", name |-> name]
      [] t.k = "str"  -> [v |-> "string", name |-> name]
      [] t.k \in {"arr", "dyn", "opt"} ->
            LET inner == Visit(sch, t.t, "") IN
            IF inner = RaiseT THEN RaiseT
            ELSE CASE t.k = "arr" -> [v |-> "array", name |-> name, n |-> t.n, inner |-> inner]
                   [] t.k = "dyn" -> [v |-> "dynamic_array", name |-> name, inner |-> inner]
                   [] t.k = "opt" -> [v |-> "optional", name |-> name, inner |-> inner]

(* the scalar leaves of a term in visiting order, an array repeated n times: <<width>> per leaf (enum: its wire width) *)
RECURSIVE TermBits(_, _)
TermBits(sch, tm) ==
    CASE tm.v = "struct"   -> SeqSum([i \in 1..Len(tm.fields) |-> TermBits(sch, tm.fields[i])])
      [] tm.v = "enum"     -> EnumWidth(GetEnum(sch, tm.t))
      [] tm.v \in {"unsigned", "signed"} -> tm.w
      [] tm.v = "float"    -> 32
      [] tm.v = "double"   -> 64
      [] tm.v = "array"    -> tm.n * TermBits(sch, tm.inner)
(* the visitor and the size function of FcpSchema walk the same tree: for a fixed-size type whose references resolve by kind
   the visited leaves add up to BitsOf *)
RECURSIVE WellKinded(_, _)
WellKinded(sch, t) ==
    CASE t.k = "struct" -> /\ HasName(sch.structs, t.name)
                           /\ LET fs == GetStruct(sch, t.name).fields IN \A i \in 1..Len(fs) : WellKinded(sch, fs[i].type)
      [] t.k = "enum"   -> HasName(sch.enums, t.name) /\ ~HasName(sch.structs, t.name)
      [] t.k \in {"arr", "dyn", "opt"} -> WellKinded(sch, t.t)
      [] OTHER -> TRUE
VisitAgreesWithBitsOf(sch, t) ==
    (WellKinded(sch, t) /\ FixedSize(sch, t)) => (Visit(sch, t, "r") # RaiseT /\ TermBits(sch, Visit(sch, t, "r")) = BitsOf(sch, t))
VisitRaisesOnlyOnBadReference(sch, t) == WellKinded(sch, t) => Visit(sch, t, "r") # RaiseT

UniqueStructNames(sch) == \A i, j \in 1..Len(sch.structs) : sch.structs[i].name = sch.structs[j].name => i = j
(* what a generator relies on: every struct that has a binding for p or a default one is represented; nothing else is returned;
   a struct with an own binding never contributes its default one; with unique struct names no binding is returned twice *)
MIODSound(sch, p) ==
    LET r == MatchingImplsOrDefault(sch, p) IN
    /\ \A k \in 1..Len(r) : sch.impls[r[k]].protocol \in {p, "default"} /\ HasName(sch.structs, sch.impls[r[k]].type)
    /\ \A s \in 1..Len(sch.structs) :
          LET nm == sch.structs[s].name
              own == \E i \in 1..Len(sch.impls) : sch.impls[i].type = nm /\ sch.impls[i].protocol = p IN
          /\ own => \A k \in 1..Len(r) : sch.impls[r[k]].type = nm => sch.impls[r[k]].protocol = p
          /\ \A i \in 1..Len(sch.impls) : (sch.impls[i].type = nm /\ sch.impls[i].protocol = (IF own THEN p ELSE "default"))
                                            => \E k \in 1..Len(r) : r[k] = i
    /\ UniqueStructNames(sch) => \A k, h \in 1..Len(r) : r[k] = r[h] => k = h
=============================================================================
