------------------------------ MODULE VerifierM ------------------------------
(* Verifier.verify as a machine: categories in the code's order; for each    *)
(* registered check of the category, for each node of the category; the first *)
(* failing check ends the run with Err.                                       *)
EXTENDS Verifier

VARIABLES tree, cset,     \* fixed per behaviour
          ci, ki, ni,     \* category / check / node indices
          verdict         \* "running" | "Ok" | "Err"
          , failed        \* which check failed on which node index (for Gate's fault catalogue)
mvars == <<tree, cset, ci, ki, ni, verdict, failed>>

VInit(s, cs) == /\ tree = s /\ cset = cs /\ ci = 1 /\ ki = 1 /\ ni = 1
                /\ verdict = "running" /\ failed = <<>>

Cat == Categories[ci]
RunCheck ==
    /\ verdict = "running" /\ ci <= Len(Categories)
    /\ ki <= Len(Checks(cset, Cat)) /\ ni <= Len(Nodes(tree, Cat))
    /\ IF Passes(tree, Checks(cset, Cat)[ki], Nodes(tree, Cat)[ni])
       THEN ni' = ni + 1 /\ UNCHANGED <<verdict, failed>>
       ELSE verdict' = "Err" /\ failed' = <<Cat, Checks(cset, Cat)[ki], ni>> /\ UNCHANGED ni
    /\ UNCHANGED <<tree, cset, ci, ki>>
NextCheck ==
    /\ verdict = "running" /\ ci <= Len(Categories)
    /\ ki <= Len(Checks(cset, Cat)) /\ ni > Len(Nodes(tree, Cat))
    /\ ki' = ki + 1 /\ ni' = 1
    /\ UNCHANGED <<tree, cset, ci, verdict, failed>>
NextCategory ==
    /\ verdict = "running" /\ ci <= Len(Categories)
    /\ ki > Len(Checks(cset, Cat))
    /\ ci' = ci + 1 /\ ki' = 1 /\ ni' = 1
    /\ UNCHANGED <<tree, cset, verdict, failed>>
Pass ==
    /\ verdict = "running" /\ ci > Len(Categories)
    /\ verdict' = "Ok"
    /\ UNCHANGED <<tree, cset, ci, ki, ni, failed>>
VNext == RunCheck \/ NextCheck \/ NextCategory \/ Pass

VerdictIsWF == verdict \in {"Ok", "Err"} => ((verdict = "Ok") <=> WellFormed(tree, cset))
=============================================================================
