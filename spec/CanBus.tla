-------------------------------- MODULE CanBus --------------------------------
(***************************************************************************)
(* The C++ CAN frame wrapper (fcp::can::Can over CanStaticSchema /          *)
(* CanDynamicSchema): a table of CAN bindings (named after their struct),   *)
(*   Encode(name, v) = [sid = binding id, bus = bus name padded with NULs   *)
(*                      to 4 characters, dlc = number of canonical payload  *)
(*                      bytes, data = those bytes padded to 8]              *)
(*   Decode(frame)   = (name, value) of the unique binding with the frame's *)
(*                     (sid, bus), else Unknown                             *)
(* The payload is the canonical wire encoding (Wire.Canon).                 *)
(***************************************************************************)
EXTENDS Dbc

BusBytes(s) == s      \* bus names travel as sequences of character codes (TLC strings are opaque)
Pad4(cs) == cs \o [i \in 1..(4 - Len(cs)) |-> 0]

(* binding: [name, sid, bus : Seq(char codes)] *)
CanEncode(sch, b, v) ==
    LET bytes == CanonBytes(sch, b.name, v) IN
    [bus |-> Pad4(b.bus), sid |-> b.sid, dlc |-> Len(bytes), data |-> bytes \o [i \in 1..(8 - Len(bytes)) |-> 0]]

Matching(table, frame) == {i \in 1..Len(table) : table[i].sid = frame.sid /\ Pad4(table[i].bus) = frame.bus}
CanDecode(sch, table, frame) ==
    IF Matching(table, frame) = {} THEN [known |-> FALSE]
    ELSE LET b == table[CHOOSE i \in Matching(table, frame) : \A j \in Matching(table, frame) : i <= j]
             p == ParseBytes(sch, b.name, frame.data) IN
         [known |-> TRUE, name |-> b.name, ok |-> p.ok, value |-> p.v]

(* frames that must be reported as unknown: neighbouring ids, another bus, an unused id *)
Unpad(cs) == SelectSeq(cs, LAMBDA c : c # 0)
Probes(table, frame, otherBus) ==
    LET b == Unpad(frame.bus) IN
    { f \in { [frame EXCEPT !.sid = (frame.sid + 1) % 2048], [frame EXCEPT !.sid = (frame.sid + 2047) % 2048],
              [frame EXCEPT !.bus = Pad4(otherBus)], [frame EXCEPT !.sid = 1999] }
            \cup (IF Len(b) < 4 THEN { [frame EXCEPT !.bus = Pad4(b \o <<49>>)] } ELSE {})        \* the bus name extended by a character
            \cup (IF Len(b) > 1 THEN { [frame EXCEPT !.bus = Pad4(Take(b, Len(b) - 1))] } ELSE {}) \* a proper prefix of the bus name
            \cup { [frame EXCEPT !.bus = <<0, 0, 0, 0>>] } :
        Matching(table, f) = {} }
=============================================================================
