------------------------------- MODULE Gen_Sched -------------------------------
(* Spec -> code: call histories over the real 32-bit clock with the delta        *)
(* alphabet {0, 1, P-1, P, P+1, 2P, wrap-around} of each device, every history   *)
(* of length Depth printed with the frames the specification says each call      *)
(* hands to the send callback.                                                   *)
EXTENDS Sched, WireGen, IOUtils
VARIABLES hist
vars == <<svars, hist>>

Depth == IF IOEnv.SCHED_DEPTH = "6" THEN 6 ELSE IF IOEnv.SCHED_DEPTH = "5" THEN 5 ELSE 4

MsgStruct(k) == [name |-> "M" \o ToString(k),
                 fields |-> <<[name |-> "fa", id |-> 0, type |-> U(8), gd |-> 1], [name |-> "fb", id |-> 1, type |-> I(12), gd |-> 1]>>]
MsgImpl(k, p) == [name |-> "M" \o ToString(k), protocol |-> "can", type |-> "M" \o ToString(k),
                  fields |-> << [name |-> "id", value |-> [i |-> 100 + k]], [name |-> "device", value |-> [s |-> "ecu"]] >>
                             \o (IF p = NoPeriod THEN <<>> ELSE << [name |-> "period", value |-> [i |-> p]] >>),
                  signals |-> <<>>]
Device(ps) == [periods |-> ps, structs |-> [k \in 1..Len(ps) |-> MsgStruct(k)], enums |-> <<>>,
               impls |-> [k \in 1..Len(ps) |-> MsgImpl(k, ps[k])]]
(* two messages that are bindings of ONE struct (impl can for M1 as M2): each has its own period, identifier and value *)
DeviceShared(ps) == [periods |-> ps, structs |-> <<MsgStruct(1)>>, enums |-> <<>>,
                     impls |-> [k \in 1..Len(ps) |-> [MsgImpl(k, ps[k]) EXCEPT !.type = "M1"]]]
(* a float that is not the first field of its message *)
MsgStructF(k) == [name |-> "M" \o ToString(k),
                  fields |-> <<[name |-> "fa", id |-> 0, type |-> U(8), gd |-> 1], [name |-> "fb", id |-> 1, type |-> F32, gd |-> 1]>>]
DeviceF(ps) == [periods |-> ps, structs |-> [k \in 1..Len(ps) |-> MsgStructF(k)], enums |-> <<>>,
                impls |-> [k \in 1..Len(ps) |-> MsgImpl(k, ps[k])]]
Devices == { Device(<<1>>), Device(<<5, NoPeriod>>), Device(<<2, 3>>), Device(<<1000, 5, NoPeriod, 1>>),
             Device(<<NoPeriod>>), Device(<<7, 7, 100>>), DeviceShared(<<2, 5>>), DeviceF(<<3>>) }

Periods == {sch.periods[i] : i \in 1..Len(sch.periods)} \ {NoPeriod}
DeltaNats == {0, 1} \cup UNION { {p - 1, p, p + 1, 2 * p} : p \in Periods }
WrapDeltas == { Neg(TimeOfNat(k)) : k \in {1} \cup Periods }        \* 2^32 - k
Deltas == { TimeOfNat(d) : d \in DeltaNats } \cup WrapDeltas

Init == (\E S \in Devices : SInit(S, "ecu")) /\ hist = <<>>
Step(d) == LET t == AddBits(lastCall, d) IN
           \* the driver's clock is the last DISTINCT timestamp, so delta 0 repeats the previous call's time
           /\ Call(t)
           /\ hist' = Append(hist, [op |-> "T", t |-> t, sent |-> sent'])
Poke == \E n \in DOMAIN val :
           LET isF == FirstNamed(sch.structs, FirstNamed(sch.impls, n).type).fields[2].type.k = "f32"
               v == [fa |-> IntOfNat(Len(hist) + 1),
                     fb |-> IF isF THEN NatBits(1078530011 + Len(hist), 32) ELSE [s |-> 1, m |-> <<1, 1>>]] IN      \* 0x40490fdb = 3.14159...
           /\ val[n] # v
           /\ SetVal(n, v)
           /\ hist' = Append(hist, [op |-> "V", msg |-> n, value |-> v])
DepthOf(S) == IF Len(S.periods) >= 3 THEN Depth - 1 ELSE Depth
Next == Len(hist) < DepthOf(sch) /\ ((\E d \in Deltas : Step(d)) \/ Poke)
Spec == Init /\ [][Next]_vars

Emit == Len(hist) = DepthOf(sch) => PrintT("OUT " \o ToJson([device |-> sch, hist |-> hist]))
=============================================================================
