SPECIFICATION Spec
INVARIANT NoSkip
