SPECIFICATION Spec
CONSTRAINT Emit
INVARIANT InvNoDangling
INVARIANT ErrNamesBoth
INVARIANT Transparent
INVARIANT ErrNamesModule
