------------------------------- MODULE ModGen -------------------------------
(* Universes for C08 (reference resolution) and C20 (module transparency).     *)
EXTENDS Modules, Json, IOUtils, SequencesExt

U8 == [k |-> "u", w |-> 8]
Ref(n) == [k |-> "ref", name |-> n]
Fld(n, id, t) == [name |-> n, id |-> id, type |-> t, params |-> <<>>]
St(n, fs) == [kind |-> "struct", name |-> n, fields |-> fs]
En(n) == [kind |-> "enum", name |-> n, items |-> <<[name |-> n \o "x", value |-> 0], [name |-> n \o "y", value |-> 2]>>]
Mod(p) == [kind |-> "mod", path |-> p]
Style == [gaps |-> "nl", seps |-> "all", seed |-> 0]

(* ------------------------------------------------------------------- C08 *)
Wraps == {"bare", "arr", "opt", "dyn", "optarr", "dynopt", "arrarr"}
Wrap(w, t) == CASE w = "bare" -> t
                [] w = "arr" -> [k |-> "arr", t |-> t, n |-> 2]
                [] w = "opt" -> [k |-> "opt", t |-> t]
                [] w = "dyn" -> [k |-> "dyn", t |-> t]
                [] w = "optarr" -> [k |-> "opt", t |-> [k |-> "arr", t |-> t, n |-> 3]]
                [] w = "dynopt" -> [k |-> "dyn", t |-> [k |-> "opt", t |-> t]]
                [] w = "arrarr" -> [k |-> "arr", t |-> [k |-> "arr", t |-> t, n |-> 2], n |-> 2]
Targets == {"EarlierS", "EarlierE", "Later", "Self", "Undeclared", "ModBefore", "ModAfter", "ModNested", "ModEnum", "ModSameName",
            "ModUsesImporter", "ModUsesSibling", "AliasAsType"}
TargetName(tg) == CASE tg = "EarlierS" -> "Aa" [] tg = "EarlierE" -> "Ee" [] tg = "Later" -> "Zz" [] tg = "Self" -> "Pp"
                    [] tg = "Undeclared" -> "Nope" [] tg = "ModEnum" -> "Me" [] tg = "AliasAsType" -> "Alias" [] OTHER -> "Mx"
ModFiles(tg) ==
    CASE tg \in {"ModBefore", "ModAfter"} -> [p \in {<<"m1">>} |-> <<St("Mx", <<Fld("q", 0, U8)>>)>>]
      [] tg = "ModEnum" -> [p \in {<<"m1">>} |-> <<En("Me")>>]
      (* a module is a schema of its own: it cannot use what only its importer (or a module imported before it) declares *)
      [] tg = "ModUsesImporter" -> [p \in {<<"m1">>} |-> <<St("Mx", <<Fld("q", 0, Ref("Aa"))>>)>>]
      [] tg = "ModUsesSibling" -> [p \in {<<"m0">>, <<"m1">>} |->
                                     IF p = <<"m0">> THEN <<St("Sib", <<Fld("q", 0, U8)>>)>> ELSE <<St("Mx", <<Fld("q", 0, Ref("Sib"))>>)>>]
      (* two modules with the same file name in different directories, each declaring a struct at the same place *)
      [] tg = "ModSameName" -> [p \in {<<"pa", "types">>, <<"pb", "types">>} |->
                                  IF p = <<"pa", "types">> THEN <<St("Ma", <<Fld("q", 0, U8)>>)>>
                                  ELSE <<St("Mx", <<Fld("q", 0, U8), Fld("r", 1, U8)>>), St("Mz", <<Fld("w", 0, Ref("Mx"))>>)>>]
      [] tg = "ModNested" -> [p \in {<<"m1">>, <<"sub", "m2">>} |->
                                IF p = <<"m1">> THEN <<Mod(<<"sub", "m2">>)>> ELSE <<St("Mx", <<Fld("q", 0, U8)>>)>>]
      [] OTHER -> <<>>
ResolveCase(w, tg, pos) ==
    LET probe == Fld("probe", 5, Wrap(w, Ref(TargetName(tg))))
        others == <<Fld("a", 1, U8), Fld("c", 9, Ref("Ee"))>>
        fields == IF pos = 1 THEN <<probe>> \o others ELSE IF pos = 2 THEN <<others[1], probe, others[2]>> ELSE others \o <<probe>>
        main == <<En("Ee"), St("Aa", <<Fld("q", 0, U8)>>)>>
                \o (IF tg = "ModUsesSibling" THEN <<Mod(<<"m0">>)>> ELSE <<>>)
                \o (IF tg \in {"ModBefore", "ModNested", "ModEnum", "ModUsesImporter", "ModUsesSibling"} THEN <<Mod(<<"m1">>)>> ELSE <<>>)
                (* the name a binding gives itself with `as` is not a type *)
                \o (IF tg = "AliasAsType" THEN <<[kind |-> "impl", protocol |-> "can", type |-> "Aa", name |-> "Alias",
                                                   items |-> <<[k |-> "field", name |-> "id", value |-> [i |-> 1]]>>]>> ELSE <<>>)
                \o (IF tg = "ModSameName" THEN <<Mod(<<"pa", "types">>), Mod(<<"pb", "types">>)>> ELSE <<>>)
                \o <<St("Pp", fields)>>
                \o (IF tg = "ModAfter" THEN <<Mod(<<"m1">>)>> ELSE <<>>)
                \o <<St("Zz", <<Fld("q", 0, Ref("Pp"))>>)>> IN
    [p \in {<<"main">>} \cup DOMAIN ModFiles(tg) |-> IF p = <<"main">> THEN main ELSE ModFiles(tg)[p]]
ResolveCases == { ResolveCase(w, tg, pos) : w \in Wraps, tg \in Targets, pos \in 1..3 }

(* ------------------------------------------------------------------- C20 *)
XF(n, v) == [k |-> "field", name |-> n, value |-> v]
Base1 == << En("Ee"),
            St("Aa", <<Fld("x", 0, Ref("Ee"))>>),
            St("Bb", <<Fld("y", 0, Ref("Aa")), Fld("z", 1, [k |-> "opt", t |-> [k |-> "arr", t |-> Ref("Ee"), n |-> 2]])>>),
            [kind |-> "impl", protocol |-> "can", type |-> "Bb", name |-> "Bb", items |-> <<XF("id", [i |-> 1])>>],
            [kind |-> "service", name |-> "Svc", id |-> 1, methods |-> <<[name |-> "m", id |-> 0, input |-> "Aa", output |-> "Bb"]>>],
            [kind |-> "device", name |-> "dev", fields |-> <<[name |-> "services", value |-> [a |-> <<[id |-> "Svc"]>>]]>>] >>
Base2 == << St("Aa", <<Fld("x", 0, U8)>>),
            [kind |-> "impl", protocol |-> "uart", type |-> "Aa", name |-> "Ren", items |-> <<XF("k", [s |-> "v"])>>],
            En("Ee"),
            [kind |-> "device", name |-> "d0", fields |-> <<[name |-> "n", value |-> [i |-> 3]]>>],
            St("Cc", <<Fld("e", 3, Ref("Ee")), Fld("a", 1, [k |-> "dyn", t |-> Ref("Aa")])>>),
            [kind |-> "service", name |-> "S2", id |-> 9, methods |-> <<[name |-> "m", id |-> 1, input |-> "Cc", output |-> "Aa"]>>] >>
Bases == <<Base1, Base2>>

DeclRefs(d) == IF d.kind = "struct" THEN UNION { Range(RefsIn(d.fields[i].type)) : i \in 1..Len(d.fields) } ELSE {}
TypeIdx(base, n) == {i \in 1..Len(base) : base[i].kind \in {"struct", "enum"} /\ base[i].name = n}
(* a subset may move to a module when nothing in it refers to a type that stays behind *)
Closed(base, S) == \A i \in S : \A n \in DeclRefs(base[i]) : TypeIdx(base, n) \subseteq S
Sub(base, S) == LET idx == SetToSortSeq(S, <) IN [k \in 1..Len(idx) |-> base[idx[k]]]
MinOf(S) == CHOOSE i \in S : \A j \in S : i <= j
(* root file: the declarations that stay, with `mod` at the position of the first one that moved *)
Root(base, S, modpath) ==
    LET first == MinOf(S) IN
    Flat([i \in 1..Len(base) |-> IF i = first THEN <<Mod(modpath)>> ELSE IF i \in S THEN <<>> ELSE <<base[i]>>])
ModPaths == { <<"m1">>, <<"d1", "m2">>, <<"d1", "d2", "m3">> }
(* one level: S moves to the module; two levels: S2 (closed inside S) moves on to a sub-module of the module *)
Split1(base, S, mp) == [p \in {<<"main">>, mp} |-> IF p = <<"main">> THEN Root(base, S, mp) ELSE Sub(base, S)]
Split2(base, S, S2, mp, sp) ==
    LET inner == Sub(base, S)
        idx == SetToSortSeq(S, <)
        S2loc == {k \in 1..Len(idx) : idx[k] \in S2}
        subfile == DirOf(mp) \o sp IN
    [p \in {<<"main">>, mp, subfile} |->
        IF p = <<"main">> THEN Root(base, S, mp)
        ELSE IF p = mp THEN Root(inner, S2loc, sp)
        ELSE Sub(inner, S2loc)]
Splits == UNION { { [base |-> b, files |-> Split1(Bases[b], S, mp), inject |-> "none", where |-> <<>>] :
                       S \in {S \in SUBSET (1..Len(Bases[b])) : S # {} /\ Closed(Bases[b], S)}, mp \in ModPaths } : b \in 1..2 }
          \cup UNION { UNION { { [base |-> b, files |-> Split2(Bases[b], S, S2, mp, <<"inner", "deep">>), inject |-> "none", where |-> <<>>] :
                                     S2 \in {S2 \in SUBSET S : S2 # {} /\ S2 # S /\ Closed(Bases[b], S2)},
                                     mp \in {<<"m1">>, <<"d1", "m2">>} } :
                                S \in {S \in SUBSET (1..Len(Bases[b])) : Cardinality(S) >= 2 /\ Closed(Bases[b], S)} } : b \in 1..2 }
(* two sibling modules that share their base name in different directories *)
RootTwo(base, S1, S2, p1, p2) ==
    Flat([i \in 1..Len(base) |-> IF i = MinOf(S1) THEN <<Mod(p1)>> ELSE IF i = MinOf(S2) THEN <<Mod(p2)>>
                                   ELSE IF i \in S1 \cup S2 THEN <<>> ELSE <<base[i]>>])
SplitTwo(base, S1, S2, p1, p2) ==
    [p \in {<<"main">>, p1, p2} |-> IF p = <<"main">> THEN RootTwo(base, S1, S2, p1, p2)
                                    ELSE IF p = p1 THEN Sub(base, S1) ELSE Sub(base, S2)]
(* S2 may use what S1 declares only if S1 is imported first *)
ClosedAfter(base, S1, S2) == \A i \in S2 : \A n \in DeclRefs(base[i]) : TypeIdx(base, n) \subseteq S2
SplitsTwo == UNION { UNION { { [base |-> b, files |-> SplitTwo(Bases[b], S1, S2, <<"pa", "types">>, <<"pb", "types">>),
                                inject |-> "none", where |-> <<>>] :
                                  S2 \in {S2 \in SUBSET ((1..Len(Bases[b])) \ S1) : S2 # {} /\ ClosedAfter(Bases[b], S1, S2)} } :
                             S1 \in {S1 \in SUBSET (1..Len(Bases[b])) : S1 # {} /\ Cardinality(S1) <= 2 /\ Closed(Bases[b], S1)} } : b \in 1..2 }
ValidSplit(sp) == \A p \in DOMAIN sp.files : sp.files[p] # <<>>

(* error injection into one module file *)
InvalidHows == {"param", "enumstr", "range1"}
InjectHows == {"syntax", "unresolved", "deleted"} \cup InvalidHows
Inject(sp, p, how) ==
    [sp EXCEPT !.inject = how, !.where = p,
               !.files = IF how = "deleted" THEN [q \in DOMAIN sp.files \ {p} |-> sp.files[q]]
                         ELSE [sp.files EXCEPT ![p] = IF how = "syntax" THEN Append(sp.files[p], [kind |-> "garbage"])
                                                      ELSE IF how \in InvalidHows THEN Append(sp.files[p], [kind |-> "invalid", how |-> how])
                                                      ELSE Append(sp.files[p], St("Late", <<Fld("q", 0, Ref("Nowhere"))>>))]]
=============================================================================
