SPECIFICATION Spec
CONSTANT W = 32
CONSTRAINT Judge
