------------------------------ MODULE Trace_Gate ------------------------------
(***************************************************************************)
(* Code -> spec for the generate command.  One trace per call:             *)
(*  [id, gen, tree, fs0, events, ret, fs1] with                            *)
(*  events: the action sequence seen by harness-side wrappers, a           *)
(*  subsequence of  verify[ok] . generate[raised, files] . write[path]*    *)
(*  (empty when the wrappers could not attach: then only the API-level     *)
(*  observation ret / fs1 is judged).                                       *)
(* The trace is accepted iff it is a behaviour of Gate: Verify's verdict   *)
(* is WellFormed(tree, check set of gen); nothing is generated or written  *)
(* after an Err verdict; what is written is what the plug-in returned; the *)
(* final directory satisfies RejectWritesNothing / AcceptWritesExactly.    *)
(***************************************************************************)
EXTENDS GateRules, Batch, Json, IOUtils

Traces == ndJsonDeserialize(IOEnv.TRACE_FILE)
N == Len(Traces)
Chunk == 16

Ops(t) == [i \in 1..Len(t.events) |-> t.events[i].op]
EvOf(t, op) == t.events[CHOOSE i \in 1..Len(t.events) : t.events[i].op = op]
HasOp(t, op) == \E i \in 1..Len(t.events) : t.events[i].op = op
Pos(t, op) == CHOOSE i \in 1..Len(t.events) : t.events[i].op = op
Files(t) == IF HasOp(t, "generate") THEN EvOf(t, "generate").files ELSE <<>>

Clause(t) ==
    LET wf == WellFormedAcc(t.tree, Range(t.registered))      \* registered: the generators this manager has been used with, this call included
        can == PluginCan(t.tree, t.gen) IN
    IF HasOp(t, "verify") /\ EvOf(t, "verify").ok = 2 THEN "exception-escaped-verify"
    ELSE IF HasOp(t, "verify") /\ (EvOf(t, "verify").ok = 1) # wf THEN "verify-verdict"
    ELSE IF ~wf THEN
        IF HasOp(t, "generate") THEN "plugin-ran-on-rejected-schema"
        ELSE IF HasOp(t, "write") THEN "file-written-on-rejected-schema"
        ELSE IF t.ret # "Err" THEN "no-error-reported-for-rejected-schema"
        ELSE IF ~Untouched(t.fs0, t.fs1) THEN "directory-changed-on-rejected-schema"
        ELSE "ok"
    ELSE IF ~can THEN
        IF t.ret = "Ok" THEN "described-message-that-does-not-fit"
        ELSE IF ~Untouched(t.fs0, t.fs1) THEN "directory-changed-on-refused-schema"
        ELSE "ok"
    ELSE IF t.ret = "Err" THEN "error-reported-for-accepted-schema"
    ELSE IF t.ret = "Raised" THEN (IF HasOp(t, "generate") /\ EvOf(t, "generate").raised = 1 THEN "ok" ELSE "exception-escaped")
    ELSE IF HasOp(t, "generate") /\ HasOp(t, "verify") /\ Pos(t, "generate") < Pos(t, "verify") THEN "generated-before-verify"
    ELSE IF \E i \in 1..Len(t.events) : t.events[i].op = "write" /\ t.events[i].path \notin Paths(Files(t)) THEN "wrote-unreturned-file"
    ELSE IF ~WroteExactly(t.fs0, t.fs1, t.files) THEN "directory-differs-from-returned-files"
    ELSE "ok"

TSpec == BInit /\ [][BNext(N, Chunk)]_bvars
Judge == stage = 2 => PrintT("VERDICT " \o ToJson([id |-> Traces[idx].id, clause |-> Clause(Traces[idx]),
                                                   wf |-> IF WellFormedAcc(Traces[idx].tree, Range(Traces[idx].registered)) THEN 1 ELSE 0,
                                                   fails |-> FailSeq(Traces[idx].tree, CSetOf(Traces[idx].gen))]))
=============================================================================
