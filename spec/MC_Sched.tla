------------------------------- MODULE MC_Sched -------------------------------
(* Exhaustive: W-bit clock (M = 2^W), every delta 0..M-1, 1..3 messages with    *)
(* every assignment of periods from {none, 1, 2, 3, M-1}.  A ghost counter of   *)
(* the TRUE elapsed time since each message's last transmission (saturating)    *)
(* states the consequences the property names.                                  *)
EXTENDS Sched, WireGen, IOUtils

VARIABLES now,      \* ghost: current W-bit time
          since,    \* ghost: true time since the last transmission of each message, saturating at Cap
          delta     \* ghost: the delta of the last call
vars == <<svars, now, since, delta>>
M == 2^W
Cap == 2 * M
Sat(n) == IF n > Cap THEN Cap ELSE n

PeriodChoices == {NoPeriod, 1, 2, 3, M - 1}
MsgStruct(k) == [name |-> "M" \o ToString(k), fields |-> <<[name |-> "fa", id |-> 0, type |-> U(8), gd |-> 1]>>]
MsgImpl(k, p) == [name |-> "M" \o ToString(k), protocol |-> "can", type |-> "M" \o ToString(k),
                  fields |-> << [name |-> "id", value |-> [i |-> k]], [name |-> "device", value |-> [s |-> "ecu"]] >>
                             \o (IF p = NoPeriod THEN <<>> ELSE << [name |-> "period", value |-> [i |-> p]] >>),
                  signals |-> <<>>]
NMsgs == IF IOEnv.SCHED_MSGS = "3" THEN 3 ELSE 2
Device(ps) == [structs |-> [k \in 1..Len(ps) |-> MsgStruct(k)], enums |-> <<>>,
               impls |-> [k \in 1..Len(ps) |-> MsgImpl(k, ps[k])]]
Devices == { Device(ps) : ps \in UNION { Tuples(PeriodChoices, n) : n \in 1..NMsgs } }

Init == /\ \E S \in Devices : SInit(S, "ecu")
        /\ now = Time0 /\ delta = 0
        /\ since = [n \in DOMAIN val |-> 0]
Step(d) ==
    /\ now' = AddBits(now, TimeOfNat(d))
    /\ delta' = d
    /\ Call(now')
    /\ since' = [n \in DOMAIN since |->
                   IF \E i \in 1..Len(sent') : sent'[i].msg = n THEN 0 ELSE Sat(since[n] + d)]
Poke == \E n \in DOMAIN val : \E x \in {7} :
            /\ val[n].fa # IntOfNat(x)
            /\ SetVal(n, [fa |-> IntOfNat(x)]) /\ UNCHANGED <<now, since>> /\ delta' = 0
Next == (\E d \in 0..(M - 1) : Step(d)) \/ Poke
Spec == Init /\ [][Next]_vars

WasSent(n) == \E i \in 1..Len(sent) : sent[i].msg = n
P(n) == PeriodOf(FirstNamed(sch.impls, n))
(* a message is never transmitted twice within less than its period (true, unwrapped time) *)
NeverTwiceWithinP == [][\A n \in DOMAIN since :
                          (\E i \in 1..Len(sent') : sent'[i].msg = n) /\ delta' > 0 => since[n] + delta' >= P(n)]_vars
NoPeriodNeverSent == \A n \in DOMAIN val : WasSent(n) => P(n) # NoPeriod
SameTickSilent == [][delta' = 0 => sent' = <<>> /\ lastSend' = lastSend /\ lastCall' = lastCall]_vars
(* while less than M true time has elapsed the wrapped difference IS the true time: sent iff due *)
SentIffElapsed == [][\A n \in DOMAIN since :
                       (delta' > 0 /\ since[n] + delta' < M /\ P(n) # NoPeriod)
                          => ((\E i \in 1..Len(sent') : sent'[i].msg = n) <=> since[n] + delta' >= P(n))]_vars
(* every transmitted frame is the encoding of the current value *)
FramesAreCurrent == \A i \in 1..Len(sent) :
                       sent[i].frame = CEncode(sch, FirstNamed(sch.impls, sent[i].msg), val[sent[i].msg])
=============================================================================
