------------------------------ MODULE Trace_Parse ------------------------------
(* Code -> spec for C11: one event per parse call; accepted iff the call followed *)
(* the outcome protocol (returned a schema, or returned a renderable error whose   *)
(* cited source lines exist).                                                      *)
EXTENDS Mutate, Batch, Json, IOUtils
Events == ndJsonDeserialize(IOEnv.TRACE_FILE)
N == Len(Events)
Chunk == 256
TSpec == BInit /\ [][BNext(N, Chunk)]_bvars
Judge == stage = 2 => PrintT("VERDICT " \o ToJson([id |-> Events[idx].id, clause |-> ParseOutcome(Events[idx])]))
=============================================================================
