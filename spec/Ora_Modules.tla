------------------------------ MODULE Ora_Modules ------------------------------
(* oracle service for file trees produced outside TLC: what does loading them    *)
(* give, and what is their text                                                  *)
EXTENDS Modules, Batch, Json, IOUtils
Reqs == ndJsonDeserialize(IOEnv.TRACE_FILE)
N == Len(Reqs)
Chunk == 8
Style == [gaps |-> "sp", seps |-> "all", seed |-> 0]
FilesOf(r) == [p \in {r.files[i].path : i \in 1..Len(r.files)} |->
                 r.files[CHOOSE i \in 1..Len(r.files) : r.files[i].path = p].decls]
TSpec == BInit /\ [][BNext(N, Chunk)]_bvars
Judge == stage = 2 =>
    LET r == Reqs[idx]
        R == LoadAll(FilesOf(r)) IN
    PrintT("VERDICT " \o ToJson(
        [id |-> r.id,
         texts |-> [i \in 1..Len(r.files) |-> [path |-> r.files[i].path, text |-> Text(r.files[i].decls, Style)]],
         ok |-> IF R.ok THEN 1 ELSE 0, nodangling |-> IF NoDangling(R) THEN 1 ELSE 0,
         tree |-> IF R.ok THEN TreeOf(R.decls) ELSE <<>>,
         why |-> IF R.ok THEN "" ELSE R.why, file |-> IF R.ok THEN <<>> ELSE R.file,
         type |-> IF R.ok THEN "" ELSE R.type, struct |-> IF R.ok THEN "" ELSE R.struct]))
=============================================================================
