----------------------------- MODULE MC_WireMega -----------------------------
(* One schema with many root structs (one compile of the generated C++ serves   *)
(* hundreds of cases): every type of WireGen's pool as a single field, a        *)
(* seed-selected slice of the prefix x type x id-order family, CAN bindings     *)
(* with ids {0,1,10,2047} and bus names of 1..4 characters.  For every struct   *)
(* and boundary value: canonical bytes (Wire), and for bound structs the frame  *)
(* and unknown-frame probes (CanBus).                                           *)
EXTENDS CanBus, WireGen, IOUtils
VARIABLES stage, S, table, k, v
vars == <<stage, S, table, k, v>>

Slices == 12
Slice == IF IOEnv.MEGA_SLICE = "" THEN 0 ELSE (CHOOSE n \in 0..(Slices - 1) : ToString(n) = IOEnv.MEGA_SLICE)
T1 == SetToSeq(TypePool)
Pairs == SetToSeq({<<p, t, ia>> : p \in PrefixPool, t \in TypePool, ia \in {0, 1}})
Picked == SelectSeq([i \in 1..Len(Pairs) |-> i], LAMBDA i : i % Slices = Slice)
(* two fields whose nested containers agree in their outer levels and differ only in the innermost type *)
Extras == << <<Field("a", 0, Arr(Arr(U(8), 2), 3), 0), Field("b", 1, Arr(Arr(I(8), 2), 3), 0)>>,
             <<Field("a", 0, Dyn(Opt(U(8))), 0), Field("b", 1, Dyn(Opt(I(16))), 0)>>,
             <<Field("a", 1, Opt(Arr(U(3), 2)), 0), Field("b", 0, Opt(Arr(I(3), 2)), 0)>>,
             <<Field("a", 0, Arr(Dyn(F32), 2), 1), Field("b", 1, Arr(Dyn(U(32)), 2), 1)>>,
             <<Field("a", 0, Dyn(Dyn(En("Ec"))), 1), Field("b", 1, Dyn(Dyn(U(3))), 1)>>,
             (* widths whose carrier type is the next power of two up: 10 -> 16, 20 -> 32, 40 -> 64 *)
             <<Field("a", 0, U(10), 0), Field("b", 1, U(20), 0)>>,
             <<Field("a", 0, I(11), 0), Field("b", 1, U(40), 0)>>,
             <<Field("a", 1, U(9), 0), Field("b", 0, I(33), 0)>>,
             <<Field("a", 0, U(17), 0), Field("b", 1, I(22), 0)>>,
             (* two fields sharing one id: ties are serialized in declaration order by every codec *)
             <<Field("a", 0, U(4), 0), Field("b", 0, I(12), 0)>>,
             <<Field("a", 2, U(3), 0), Field("b", 1, Str, 0), Field("c", 1, U(13), 0)>>,
             (* an enum that is NEVER the type of a field itself, only of array elements / optionals *)
             <<Field("a", 0, Arr(En("Eo"), 2), 1), Field("b", 1, Opt(En("Eo")), 1)>>,
             <<Field("a", 1, Dyn(En("Eo")), 1), Field("b", 0, U(3), 0)>> >>
EnumO == [name |-> "Eo", items |-> <<[name |-> "Oa", value |-> IntOfNat(0)], [name |-> "Ob", value |-> IntOfNat(2)], [name |-> "Oc", value |-> IntOfNat(5)], [name |-> "Od", value |-> IntOfNat(200)]>>]
NRoot == Len(T1) + Len(Picked) + Len(Extras)
RName(i) == (CASE i % 5 = 0 -> "R" [] i % 5 = 1 -> "Root" [] i % 5 = 2 -> "MessageNumber" [] i % 5 = 3 -> "ADC" [] OTHER -> "Accel") \o ToString(i)      \* names shorter and longer than a 4-character bus tag
RootFields(i) == IF i <= Len(T1) THEN <<Field("a", 0, T1[i], 0)>>
                 ELSE IF i > Len(T1) + Len(Picked) THEN Extras[i - Len(T1) - Len(Picked)]
                 ELSE LET q == Pairs[Picked[i - Len(T1)]] IN <<Field("a", q[3], q[1], 1), Field("b", 1 - q[3], q[2], 0)>>
SidOf(i) == CASE i = 1 -> 0 [] i = 5 -> 1 [] i = 9 -> 10 [] i = 13 -> 2047 [] OTHER -> 16 + i
BusNames == << <<98>>, <<98, 50>>, <<99, 97, 110>>, <<109, 97, 105, 110>> >>      \* "b", "b2", "can", "main"
BusStr(cs) == CASE cs = <<98>> -> "b" [] cs = <<98, 50>> -> "b2" [] cs = <<99, 97, 110>> -> "can" [] OTHER -> "main"
(* bind every 4th root struct whose largest boundary encoding fits 8 bytes *)
Bound(i) == i % 4 = 1
(* CAN bindings WITHOUT a bus, declared before all the others and with identifiers the bus-declaring bindings use too: they are
   not addressed by any frame and must not disturb the look-up of the bindings that follow *)
Busless(i) == i % 4 = 3 /\ i <= 24
BuslessImpls == SelectSeq([i \in 1..NRoot |->
                   [name |-> RName(i), protocol |-> "can", type |-> RName(i),
                    fields |-> << [name |-> "id", value |-> [i |-> SidOf(i - 2)]] >>, signals |-> <<>>]],
                   LAMBDA im : Busless(CHOOSE i \in 1..NRoot : RName(i) = im.name))
MegaSchema ==
    [structs |-> <<Inner>> \o [i \in 1..NRoot |-> [name |-> RName(i), fields |-> RootFields(i)]],
     enums |-> Enums \o <<EnumO>>,
     impls |-> BuslessImpls \o SelectSeq([i \in 1..NRoot |->
                  [name |-> RName(i), protocol |-> "can", type |-> RName(i),
                   fields |-> << [name |-> "id", value |-> [i |-> SidOf(i)]],
                                 [name |-> "bus", value |-> [s |-> BusStr(BusNames[((i \div 4) % 4) + 1])]] >>,
                   signals |-> <<>>]], LAMBDA im : Bound(CHOOSE i \in 1..NRoot : RName(i) = im.name))
              (* the same structs bound once more, under the SAME binding name, by another protocol - after their CAN binding *)
              \o SelectSeq([i \in 1..NRoot |->
                  [name |-> RName(i), protocol |-> "uart", type |-> RName(i),
                   fields |-> << [name |-> "id", value |-> [i |-> SidOf(i)]], [name |-> "bus", value |-> [s |-> "zz"]],
                                 [name |-> "endianess", value |-> [s |-> "big"]] >>,     \* concerns fcp_uart.h only, never fcp.h
                   signals |-> <<>>]], LAMBDA im : LET i == CHOOSE i \in 1..NRoot : RName(i) = im.name IN Bound(i) /\ i % 8 = 1)
              (* the embedded struct is bound too, and its binding is written LAST: in fcp_can.h it must still be defined before its users *)
              \o << [name |-> "Sin", protocol |-> "can", type |-> "Sin",
                     fields |-> << [name |-> "id", value |-> [i |-> 2000]], [name |-> "bus", value |-> [s |-> "b"]] >>, signals |-> <<>>] >>]
HasBus(im) == im.protocol = "can" /\ \E f \in Range(im.fields) : f.name = "bus"
TableOf(sch) == LET bound == SelectSeq(sch.impls, HasBus) IN
                [j \in 1..Len(bound) |->
                   [name |-> bound[j].name, sid |-> IdOf(bound[j]),
                    bus |-> BusNames[CHOOSE n \in 1..4 : BusStr(BusNames[n]) = LitStr(LookupField(bound[j].fields, "bus", <<>>))]]]

Init == stage = 0 /\ S = MegaSchema /\ table = TableOf(MegaSchema) /\ k = 0 /\ v = <<>>
Next == \/ stage = 0 /\ stage' = 1 /\ k' \in 1..(Len(S.structs) - 1) /\ v' = <<>> /\ UNCHANGED <<S, table>>
        \/ stage = 1 /\ stage' = 2 /\ k' = k /\ v' \in Vals(S, St(RName(k)), 0) /\ UNCHANGED <<S, table>>
Spec == Init /\ [][Next]_vars

Name == RName(k)
Binding == IF \E j \in 1..Len(table) : table[j].name = Name THEN <<table[CHOOSE j \in 1..Len(table) : table[j].name = Name]>> ELSE <<>>
Fits8 == Len(CanonBytes(S, Name, v)) <= 8
RoundTrip == stage = 2 => LET p == ParseBytes(S, Name, CanonBytes(S, Name, v)) IN p.ok /\ p.v = v
DecodeEncode == (stage = 2 /\ Binding # <<>> /\ Fits8) =>
    LET f == CanEncode(S, Binding[1], v)  d == CanDecode(S, table, f) IN d.known /\ d.name = Name /\ d.ok /\ d.value = v
UnknownIffNoBinding == (stage = 2 /\ Binding # <<>> /\ Fits8) =>
    \A f \in Probes(table, CanEncode(S, Binding[1], v), <<122, 122>>) : ~CanDecode(S, table, f).known
UniqueKeys == \A i, j \in 1..Len(table) : (table[i].sid = table[j].sid /\ table[i].bus = table[j].bus) => i = j

Emit == /\ (stage = 0) => PrintT("OUT " \o ToJson([kind |-> "schema", schema |-> S, table |-> table]))
        /\ (stage = 2) => PrintT("OUT " \o ToJson(
              [kind |-> "case", struct |-> Name, value |-> v, bytes |-> CanonBytes(S, Name, v),
               can |-> IF Binding # <<>> /\ Fits8
                       THEN << [frame |-> CanEncode(S, Binding[1], v),
                                probes |-> SetToSeq(Probes(table, CanEncode(S, Binding[1], v), <<122, 122>>))] >>
                       ELSE <<>>]))
=============================================================================
