------------------------------ MODULE WireGen ------------------------------
(***************************************************************************)
(* The bounded universe of (schema, value) cases of the wire format:      *)
(* every type constructor, width classes, every bit alignment, boundary   *)
(* values.  Used by MC_Wire (exhaustive model checking of the small-step  *)
(* machine) and, through the OUT lines, replayed into the implementation. *)
(***************************************************************************)
EXTENDS Wire, TLC, Json, SequencesExt

U(w)    == [k |-> "u", w |-> w]
I(w)    == [k |-> "i", w |-> w]
F32     == [k |-> "f32"]
F64     == [k |-> "f64"]
Str     == [k |-> "str"]
Arr(t, n) == [k |-> "arr", t |-> t, n |-> n]
Dyn(t)  == [k |-> "dyn", t |-> t]
Opt(t)  == [k |-> "opt", t |-> t]
En(n)   == [k |-> "enum", name |-> n]
St(n)   == [k |-> "struct", name |-> n]

Item(n, v) == [name |-> n, value |-> IntOfNat(v)]
(* enum widths 1, 2, 3 and 5 (maxima 1, 2, 5, 17): none of them a power-of-two-rounded width *)
EnumA == [name |-> "Ea", items |-> <<Item("Xa", 0), Item("Xb", 1)>>]
EnumB == [name |-> "Eb", items |-> <<Item("Ya", 0), Item("Yb", 2)>>]
EnumC == [name |-> "Ec", items |-> <<Item("Za", 1), Item("Zb", 5), Item("Zc", 3)>>]
EnumD == [name |-> "Ed", items |-> <<Item("Wa", 17), Item("Wb", 4)>>]
EnumZ == [name |-> "Ez", items |-> <<Item("Qa", 0)>>]          \* a single enumerator 0: still one bit
Enums == <<EnumA, EnumB, EnumC, EnumD, EnumZ>>

Field(n, id, t, gd) == [name |-> n, id |-> id, type |-> t, gd |-> gd]

Word16(lo, hi)       == NatBits(lo, 16) \o NatBits(hi, 16)
Word64(a, b, c, d)   == NatBits(a, 16) \o NatBits(b, 16) \o NatBits(c, 16) \o NatBits(d, 16)

(* IEEE words that survive a trip through a Python float / C float:      *)
(* everything except non-canonical NaNs                                    *)
F32Vals == { Zeros(32),                       \* +0.0
             Zeros(31) \o <<1>>,              \* -0.0
             Word16(0, 16256),                \* 1.0   0x3f800000
             Word16(0, 65408),                \* -inf  0xff800000
             Word16(1, 0),                    \* smallest denormal
             Word16(65535, 32639),            \* largest finite 0x7f7fffff
             Word16(21845, 21845),            \* 0x55555555
             Word16(43690, 43690) }           \* 0xaaaaaaaa
F64Vals == { Zeros(64),
             Zeros(63) \o <<1>>,
             Word64(0, 0, 0, 16368),          \* 1.0  0x3ff0000000000000
             Word64(0, 0, 0, 65520),          \* -inf
             Word64(1, 0, 0, 0),
             Word64(65535, 65535, 65535, 32751),   \* largest finite
             Word64(21845, 21845, 21845, 21845),
             Word64(43690, 43690, 43690, 43690) }

IntVals(t) == { v \in { IntZero, One, MinusOne, UMax(t.w), SMax(t.w), SMin(t.w),
                        [s |-> 0, m |-> PowTop(t.w)] } :
                    IF t.k = "u" THEN InRangeU(t.w, v) ELSE InRangeS(t.w, v) }
IntValsSmall(t) == IF t.k = "u" THEN {One, UMax(t.w)} ELSE {MinusOne, SMin(t.w), SMax(t.w)}

StrVals == { <<>>, <<104, 105>>, <<126, 32, 127, 65, 48>> }

RECURSIVE Tuples(_, _)
(* all sequences of length n over set S *)
Tuples(S, n) == IF n = 0 THEN {<<>>} ELSE {<<x>> \o r : x \in S, r \in Tuples(S, n - 1)}

PickTwo(S) == LET a == CHOOSE x \in S : TRUE IN
              IF S = {a} THEN {a} ELSE {a, CHOOSE x \in S \ {a} : TRUE}

RECURSIVE Vals(_, _, _), FieldVals(_, _, _)
(* d = 0: full boundary sets; deeper: reduced sets *)
Vals(S, t, d) ==
    CASE t.k \in {"u", "i"} -> IF d = 0 THEN IntVals(t) ELSE IntValsSmall(t)
      [] t.k = "f32"  -> IF d = 0 THEN F32Vals ELSE {Word16(0, 16256), Word16(43690, 43690)}
      [] t.k = "f64"  -> IF d = 0 THEN F64Vals ELSE {Word64(0, 0, 0, 16368), Word64(43690, 43690, 43690, 43690)}
      [] t.k = "enum" -> {it.value : it \in Range(GetEnum(S, t.name).items)}
      [] t.k = "str"  -> IF d = 0 THEN StrVals ELSE {<<>>, <<104, 105>>}
      [] t.k = "arr"  -> Tuples(IF d = 0 THEN Vals(S, t.t, 1) ELSE PickTwo(Vals(S, t.t, d + 1)), t.n)
      [] t.k = "dyn"  -> LET E == Vals(S, t.t, d + 1)
                             a == CHOOSE x \in E : TRUE
                             b == IF E = {a} THEN a ELSE CHOOSE x \in E \ {a} : TRUE IN
                         {<<>>, <<a>>, <<b>>, <<a, b, a>>}
      [] t.k = "opt"  -> {<<>>} \cup {<<x>> : x \in Vals(S, t.t, d + 1)}
      [] t.k = "struct" -> FieldVals(S, GetStruct(S, t.name).fields, d)

(* all struct values: functions field name -> value *)
FieldVals(S, fs, d) ==
    IF fs = <<>> THEN {<<>>}
    ELSE LET f == fs[1] IN
         { [n \in {f.name} \cup DOMAIN r |-> IF n = f.name THEN x ELSE r[n]] :
             x \in Vals(S, f.type, d + (IF "gd" \in DOMAIN f THEN f.gd ELSE 1)), r \in FieldVals(S, Tail(fs), d) }

(* ------------------------------------------------------------- type pools *)
LeafPool == { U(1), U(3), U(8), U(13), U(64), I(1), I(3), I(8), I(64), F32, F64, Str,
              En("Ea"), En("Eb"), En("Ec"), En("Ed"), En("Ez") }
InnerT   == St("Sin")
OnceOver(T) == T \cup {Arr(t, 2) : t \in T} \cup {Dyn(t) : t \in T} \cup {Opt(t) : t \in T}
TypePool == OnceOver(LeafPool) \cup {InnerT, Arr(InnerT, 2), Dyn(InnerT), Opt(InnerT)}
(* prefixes producing every bit offset 0..7 and the byte-granular neighbours *)
PrefixPool == { U(1), U(2), U(3), U(4), I(5), U(6), I(7), U(8), Str, Opt(U(3)), F32 }

Inner == [name |-> "Sin", fields |-> <<Field("p", 0, I(5), 1), Field("q", 1, F32, 1)>>]
Mk(fields) == [structs |-> <<Inner, [name |-> "Root", fields |-> fields]>>, enums |-> Enums]
MkLean(fields) == [structs |-> <<[name |-> "Root", fields |-> fields]>>, enums |-> <<>>]

Schemas1 == { Mk(<<Field("a", 0, t, 0)>>) : t \in TypePool }
(* two fields; ids both in and against declaration order *)
Schemas2 == { Mk(<<Field("a", ia, p, 1), Field("b", 1 - ia, t, 0)>>) :
                 p \in PrefixPool, t \in TypePool, ia \in {0, 1} }
QuickSchemas == Schemas1 \cup Schemas2

(* the complete alignment family: every integer width 1..64, signed and   *)
(* unsigned, behind a prefix of 0..7 bits, followed by each byte-granular  *)
(* type                                                                    *)
Followers == { U(8), F32, F64, Str, Dyn(U(8)), Opt(U(8)) }
AlignSchemas(Ws) ==
    { MkLean(IF o = 0 THEN <<Field("x", 1, [k |-> sg, w |-> w], 0), Field("y", 2, f, 1)>>
         ELSE <<Field("o", 0, U(o), 1), Field("x", 1, [k |-> sg, w |-> w], 0), Field("y", 2, f, 1)>>) :
        w \in Ws, sg \in {"u", "i"}, o \in 0..7, f \in Followers }

CaseJson(S, r, v) ==
    [schema |-> S, root |-> r, value |-> v, bytes |-> CanonBytes(S, r, v),
     counts |-> SetToSeq(CountOffs(S, St(r), v, 0))]
=============================================================================
