------------------------------ MODULE Trace_Fit ------------------------------
(* Code -> spec for C14: one event per schema with what the DBC generator and    *)
(* the C generator produced.  [id, schema, dbc_ok, dbc_msgs, c_ok, c_msgs];       *)
(* *_msgs: every message description found in the output, as                      *)
(* [name, len, signals : seq of [name, start, len, order, mux_ids]].              *)
(* Accepted iff nothing was produced for a schema with a CAN binding that does    *)
(* not fit, something was produced for one that fits, and every description       *)
(* found is well placed.                                                          *)
EXTENDS GateRules, Batch, Json, IOUtils

Events == ndJsonDeserialize(IOEnv.TRACE_FILE)
N == Len(Events)
Chunk == 16

AllPlaced(msgs) == \A m \in Range(msgs) : WellPlaced(m)
Clause(e) ==
    LET fits == PluginCan(e.schema, "dbc") IN
    IF ~fits /\ e.dbc_ok = 1 THEN "dbc-described-message-that-does-not-fit"
    ELSE IF ~fits /\ e.c_ok = 1 THEN "c-described-message-that-does-not-fit"
    ELSE IF fits /\ e.dbc_ok = 0 THEN "dbc-refused-message-that-fits"
    ELSE IF fits /\ e.c_ok = 0 THEN "c-refused-message-that-fits"
    ELSE IF ~AllPlaced(e.dbc_msgs) THEN "dbc-signal-outside-message-or-overlapping"
    ELSE IF ~AllPlaced(e.c_msgs) THEN "c-signal-outside-message-or-overlapping"
    ELSE "ok"
TSpec == BInit /\ [][BNext(N, Chunk)]_bvars
Judge == stage = 2 => PrintT("VERDICT " \o ToJson([id |-> Events[idx].id, clause |-> Clause(Events[idx]),
                                                   fits |-> IF PluginCan(Events[idx].schema, "dbc") THEN 1 ELSE 0]))
=============================================================================
