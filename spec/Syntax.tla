------------------------------- MODULE Syntax -------------------------------
(***************************************************************************)
(* The FCP surface language as a PRINTER: a declaration sequence is turned *)
(* into a token sequence, production by production, and rendered to text   *)
(* with a formatting style (which gap between two tokens: nothing, blank,  *)
(* newline, tab, block comment, line comment; which optional separators).  *)
(* TreeOf(decls) is the image the front end must build (FcpV2.to_dict()):  *)
(* it does not mention formatting, which is the statement "the result does *)
(* not change with whitespace, comments or the optional separators".       *)
(*                                                                         *)
(* decl == [kind |-> "struct", name, fields : seq of                        *)
(*             [name, id, type, params : seq of [p |-> "unit", v]          *)
(*                                             | [p |-> "range", lo, hi]]] *)
(*       | [kind |-> "enum", name, items : seq of [name, value : Int]]      *)
(*       | [kind |-> "impl", protocol, type, name, items : seq of           *)
(*             [k |-> "field", name, value] | [k |-> "signal", name, fields]]*)
(*       | [kind |-> "service", name, id, methods : seq of [name, id, input, output]] *)
(*       | [kind |-> "device", name, fields : seq of [name, value]]         *)
(*       | [kind |-> "mod", path : seq of identifiers]                      *)
(* literal value == [i |-> Int] | [f |-> "2.5"] | [s |-> "text"]            *)
(*                | [id |-> "ident"] | [a |-> seq of values]                *)
(***************************************************************************)
EXTENDS FcpSchema, TLC, Integers

(* ------------------------------------------------------------------ tokens *)
W(s) == [c |-> "w", s |-> s]      \* word: keyword, identifier, number, type name
P(s) == [c |-> "p", s |-> s]      \* punctuation
Q(s) == [c |-> "q", s |-> "\"" \o s \o "\""]      \* string literal

IntTok(n) == W(ToString(n))

RECURSIVE TypeToks(_)
TypeToks(t) ==
    CASE t.k = "u"    -> <<W("u" \o ToString(t.w))>>
      [] t.k = "i"    -> <<W("i" \o ToString(t.w))>>
      [] t.k \in {"f32", "f64", "str"} -> <<W(t.k)>>
      [] t.k = "arr"  -> <<P("[")>> \o TypeToks(t.t) \o <<P(","), IntTok(t.n), P("]")>>
      [] t.k = "dyn"  -> <<P("[")>> \o TypeToks(t.t) \o <<P("]")>>
      [] t.k = "opt"  -> <<W("Optional"), P("[")>> \o TypeToks(t.t) \o <<P("]")>>
      [] t.k \in {"struct", "enum", "ref"} -> <<W(t.name)>>      \* "ref": a user type name not yet resolved

RECURSIVE ValueToks(_), ValuesToks(_)
ValueToks(v) ==
    CASE "i" \in DOMAIN v  -> <<IntTok(v.i)>>
      [] "f" \in DOMAIN v  -> <<W(v.f)>>
      [] "s" \in DOMAIN v  -> <<Q(v.s)>>
      [] "id" \in DOMAIN v -> <<W(v.id)>>
      [] "a" \in DOMAIN v  -> <<P("[")>> \o ValuesToks(v.a) \o <<P("]")>>
ValuesToks(vs) == IF vs = <<>> THEN <<>>
                  ELSE IF Len(vs) = 1 THEN ValueToks(vs[1])
                  ELSE ValueToks(vs[1]) \o <<P(",")>> \o ValuesToks(Tail(vs))

(* a formatting style: gaps in {"min","sp","cm","mix"}, seps: optional separators on/off pattern *)
OptSep(style, k) == CASE style.seps = "all"  -> TRUE
                      [] style.seps = "none" -> FALSE
                      [] OTHER -> (style.seed + k) % 2 = 0

ParamToks(p, style, k) ==
    LET open  == TRUE     \* "(" ")" are optional in the grammar, but without them a following parameter name would
                          \* itself parse as an argument: the printer always writes them
        comma == OptSep(style, k + 1) IN
    IF p.p = "unit"
    THEN <<W("unit")>> \o (IF open THEN <<P("(")>> ELSE <<>>) \o <<Q(p.v)>> \o (IF open THEN <<P(")")>> ELSE <<>>)
    ELSE <<W("range")>> \o (IF open THEN <<P("(")>> ELSE <<>>) \o <<W(p.lo)>>
         \o (IF comma THEN <<P(",")>> ELSE <<>>) \o <<W(p.hi)>> \o (IF open THEN <<P(")")>> ELSE <<>>)

RECURSIVE ParamsToks(_, _, _)
ParamsToks(ps, style, k) ==
    IF ps = <<>> THEN <<>>
    ELSE ParamToks(ps[1], style, k)
         \o (IF Len(ps) > 1 /\ OptSep(style, k + 2) THEN <<P("|")>> ELSE <<>>)
         \o ParamsToks(Tail(ps), style, k + 3)

FieldToks(f, style, k) ==
    <<W(f.name), P("@"), IntTok(f.id), P(":")>> \o TypeToks(f.type)
    \o (IF f.params # <<>> /\ OptSep(style, k) THEN <<P("|")>> ELSE <<>>)
    \o ParamsToks(f.params, style, k + 1) \o <<P(",")>>

ExtToks(x) == <<W(x.name), P(":")>> \o ValueToks(x.value) \o <<P(",")>>
SignalToks(s) == <<W("signal"), W(s.name), P("{")>>
                 \o Flat([i \in 1..Len(s.fields) |-> ExtToks(s.fields[i])]) \o <<P("}"), P(",")>>

(* one operator per production of the grammar *)
PrStruct(d, style) ==
    <<W("struct"), W(d.name), P("{")>>
    \o Flat([i \in 1..Len(d.fields) |-> FieldToks(d.fields[i], style, 5 * i)]) \o <<P("}")>>
PrEnum(d) ==
    <<W("enum"), W(d.name), P("{")>>
    \o Flat([i \in 1..Len(d.items) |-> <<W(d.items[i].name), P("="), IntTok(d.items[i].value), P(",")>>])
    \o <<P("}")>>
PrImpl(d, style) ==
    <<W("impl"), W(d.protocol), W("for"), W(d.type)>>
    \o (IF d.name # d.type THEN (IF OptSep(style, 1) THEN <<W("as")>> ELSE <<>>) \o <<W(d.name)>> ELSE <<>>)
    \o <<P("{")>>
    \o Flat([i \in 1..Len(d.items) |-> IF d.items[i].k = "field" THEN ExtToks(d.items[i]) ELSE SignalToks(d.items[i])])
    \o <<P("}")>>
PrService(d) ==
    <<W("service"), W(d.name), P("@"), IntTok(d.id), P("{")>>
    \o Flat([i \in 1..Len(d.methods) |->
               LET m == d.methods[i] IN
               <<W("method"), W(m.name), P("("), W(m.input), P(")"), P("@"), IntTok(m.id), W("returns"), W(m.output), P(",")>>])
    \o <<P("}")>>
PrDevice(d) ==
    <<W("device"), W(d.name), P("{")>> \o Flat([i \in 1..Len(d.fields) |-> ExtToks(d.fields[i])]) \o <<P("}")>>
PrMod(d) ==
    <<W("mod"), W(d.path[1])>> \o Flat([i \in 1..(Len(d.path) - 1) |-> <<P("."), W(d.path[i + 1])>>]) \o <<P(";")>>
PrPreamble == <<W("version"), P(":"), Q("3")>>

DeclToks(d, style) ==
    CASE d.kind = "struct"  -> PrStruct(d, style)
      [] d.kind = "enum"    -> PrEnum(d)
      [] d.kind = "impl"    -> PrImpl(d, style)
      [] d.kind = "service" -> PrService(d)
      [] d.kind = "device"  -> PrDevice(d)
      [] d.kind = "mod"     -> PrMod(d)
      [] d.kind = "garbage" -> <<W("struct"), W("Broken"), P("{"), W("q"), P("@")>>     \* a truncated declaration
      [] d.kind = "invalid" ->      \* parses, but the declaration is not a legal one (the front end's callbacks raise on these)
           CASE d.how = "param"   -> <<W("struct"), W("Odd"), P("{"), W("q"), P("@"), IntTok(0), P(":"), W("u8"), P("|"),
                                        W("nosuch"), P("("), Q("C"), P(")"), P(","), P("}")>>
             [] d.how = "enumstr" -> <<W("enum"), W("Odd"), P("{"), W("Kelvin"), P("="), Q("K"), P(","), P("}")>>
             [] d.how = "range1"  -> <<W("struct"), W("Odd"), P("{"), W("q"), P("@"), IntTok(0), P(":"), W("u8"), P("|"),
                                        W("range"), P("("), W("1"), P(")"), P(","), P("}")>>

FileToks(decls, style) == PrPreamble \o Flat([i \in 1..Len(decls) |-> DeclToks(decls[i], style)])

(* --------------------------------------------------------------- rendering *)
GapChoices == <<"", " ", "\n", "\t", " /*c*/ ", " //c\n", " /** c **/ ", " /***/ ">>       \* block comments ending in runs of stars too
Gap(style, k, a, b) ==
    LET need == a.c = "w" /\ b.c = "w"
        g == CASE style.gaps = "min" -> ""
               [] style.gaps = "sp"  -> " "
               [] style.gaps = "nl"  -> "\n"
               [] style.gaps = "cm"  -> CASE k % 6 = 0 -> " /*c*/ " [] k % 6 = 2 -> " /** c **/ " [] k % 6 = 4 -> " /***/ " [] OTHER -> " //c\n"
               \* comments holding the other characters some tools treat as line boundaries (CR, FF): not line ends for FCP
               [] style.gaps = "xc"  -> IF k % 3 = 0 THEN " /*c\rd*/ " ELSE IF k % 3 = 1 THEN " //c\r\n" ELSE " /*\f*/ "
               [] OTHER -> GapChoices[((style.seed * 7 + k * 5 + (k \div 3) * 11 + (k \div 7)) % 8) + 1] IN
    IF g = "" /\ need THEN " " ELSE g

RECURSIVE RenderFrom(_, _, _)
RenderFrom(toks, style, k) ==
    IF k > Len(toks) THEN ""
    ELSE IF k = Len(toks) THEN toks[k].s
    ELSE toks[k].s \o Gap(style, k, toks[k], toks[k + 1]) \o RenderFrom(toks, style, k + 1)
Render(toks, style) == RenderFrom(toks, style, 1)
Text(decls, style) == Render(FileToks(decls, style), style) \o "\n"

(* ------------------------------------------------------------- the image *)
RECURSIVE TypeImg(_, _)
(* kinds: name -> "struct" | "enum" for the user types declared so far *)
TypeImg(t, kinds) ==
    CASE t.k = "u"   -> [name |-> "u" \o ToString(t.w), type |-> "unsigned"]
      [] t.k = "i"   -> [name |-> "i" \o ToString(t.w), type |-> "signed"]
      [] t.k = "f32" -> [name |-> "f32", type |-> "float"]
      [] t.k = "f64" -> [name |-> "f64", type |-> "double"]
      [] t.k = "str" -> [type |-> "str"]
      [] t.k = "arr" -> [underlying_type |-> TypeImg(t.t, kinds), size |-> t.n, type |-> "Array"]
      [] t.k = "dyn" -> [underlying_type |-> TypeImg(t.t, kinds), type |-> "DynamicArray"]
      [] t.k = "opt" -> [underlying_type |-> TypeImg(t.t, kinds), type |-> "Optional"]
      [] t.k = "struct" -> [name |-> t.name, type |-> "Struct"]
      [] t.k = "enum"   -> [name |-> t.name, type |-> "Enum"]

RECURSIVE ValueImg(_)
ValueImg(v) ==
    CASE "i" \in DOMAIN v  -> v.i
      [] "f" \in DOMAIN v  -> [f |-> v.f]          \* the number this token denotes (Python float(token), glue)
      [] "s" \in DOMAIN v  -> v.s
      [] "id" \in DOMAIN v -> v.id
      [] "a" \in DOMAIN v  -> [i \in 1..Len(v.a) |-> ValueImg(v.a[i])]

(* name -> value; a later entry with the same name wins (a Python dict) *)
DictImg(fields) ==
    [n \in {fields[i].name : i \in 1..Len(fields)} |->
        ValueImg(fields[CHOOSE i \in 1..Len(fields) : fields[i].name = n /\ \A j \in (i + 1)..Len(fields) : fields[j].name # n].value)]

ParamOf(f, p) == IF \E i \in 1..Len(f.params) : f.params[i].p = p
                 THEN <<f.params[CHOOSE i \in 1..Len(f.params) : f.params[i].p = p /\ \A j \in (i + 1)..Len(f.params) : f.params[j].p # p]>>
                 ELSE <<>>
FieldImg(f) ==
    LET base == [name |-> f.name, field_id |-> f.id, type |-> TypeImg(f.type, <<>>)]
        u == ParamOf(f, "unit")
        r == ParamOf(f, "range")
        withU == IF u = <<>> THEN base ELSE [k \in DOMAIN base \cup {"unit"} |-> IF k = "unit" THEN u[1].v ELSE base[k]] IN
    IF r = <<>> THEN withU
    ELSE [k \in DOMAIN withU \cup {"min_value", "max_value"} |->
            IF k = "min_value" THEN [f |-> r[1].lo] ELSE IF k = "max_value" THEN [f |-> r[1].hi] ELSE withU[k]]

StructImg(d) == [name |-> d.name, fields |-> [i \in 1..Len(d.fields) |-> FieldImg(d.fields[i])]]
EnumImg(d)   == [name |-> d.name, enumeration |-> [i \in 1..Len(d.items) |-> [name |-> d.items[i].name, value |-> d.items[i].value]]]
DefaultImplImg(d) == [name |-> d.name, protocol |-> "default", type |-> d.name, fields |-> <<>>, signals |-> <<>>]
ImplImg(d) ==
    LET fl == SelectSeq(d.items, LAMBDA x : x.k = "field")
        sg == SelectSeq(d.items, LAMBDA x : x.k = "signal") IN
    [name |-> d.name, protocol |-> d.protocol, type |-> d.type, fields |-> DictImg(fl),
     signals |-> [i \in 1..Len(sg) |-> [name |-> sg[i].name, fields |-> DictImg(sg[i].fields)]]]
ServiceImg(d) == [name |-> d.name, id |-> d.id,
                  methods |-> [i \in 1..Len(d.methods) |->
                                 [name |-> d.methods[i].name, id |-> d.methods[i].id,
                                  input |-> d.methods[i].input, output |-> d.methods[i].output]]]
DeviceImg(d) == [name |-> d.name, fields |-> DictImg(d.fields)]

OfKind(decls, k) == SelectSeq(decls, LAMBDA d : d.kind = k)
Map(seq, Op(_)) == [i \in 1..Len(seq) |-> Op(seq[i])]

TreeOf(decls) ==
    [structs  |-> Map(OfKind(decls, "struct"), StructImg),
     enums    |-> Map(OfKind(decls, "enum"), EnumImg),
     (* bindings in source order; one default binding per struct at the struct's position *)
     impls    |-> Map(SelectSeq(decls, LAMBDA d : d.kind \in {"struct", "impl"}),
                      LAMBDA d : IF d.kind = "struct" THEN DefaultImplImg(d) ELSE ImplImg(d)),
     services |-> Map(OfKind(decls, "service"), ServiceImg),
     devices  |-> Map(OfKind(decls, "device"), DeviceImg),
     version  |-> "3.0"]

(* printer sanity *)
Depth(toks, open, close) ==
    LET RECURSIVE Go(_, _)
        Go(k, d) == IF k > Len(toks) THEN d
                    ELSE IF d < 0 THEN d
                    ELSE Go(k + 1, IF toks[k].s = open THEN d + 1 ELSE IF toks[k].s = close THEN d - 1 ELSE d) IN
    Go(1, 0)
Balanced(toks) == Depth(toks, "{", "}") = 0 /\ Depth(toks, "[", "]") = 0 /\ Depth(toks, "(", ")") = 0
=============================================================================
