-------------------------- MODULE Trace_Determinism --------------------------
(* Code -> spec: the generate events of ALL processes (different hash seeds,     *)
(* different preceding histories) merged into one trace; TLC steps Generate with  *)
(* the logged output: the first event whose output differs from memo[g, s] has no *)
(* matching step.                                                                 *)
EXTENDS Naturals, Sequences, TLC, Json, IOUtils
Events == ndJsonDeserialize(IOEnv.TRACE_FILE)
Keys == {<<Events[i].g, Events[i].s>> : i \in 1..Len(Events)}
VARIABLES memo, l, bad
vars == <<memo, l, bad>>
Init == memo = [k \in Keys |-> "none"] /\ l = 1 /\ bad = 0
Next == /\ bad = 0 /\ l <= Len(Events)
        /\ LET e == Events[l] IN
           IF memo[<<e.g, e.s>>] \in {"none", e.out}
           THEN memo' = [memo EXCEPT ![<<e.g, e.s>>] = e.out] /\ bad' = 0
           ELSE memo' = memo /\ bad' = l
        /\ l' = l + 1
Spec == Init /\ [][Next]_vars
Judge == (bad # 0 \/ l > Len(Events)) =>
            PrintT("VERDICT " \o ToJson([clause |-> IF bad = 0 THEN "ok" ELSE "output-differs",
                                          at |-> bad, accepted |-> l - 1]))
=============================================================================
