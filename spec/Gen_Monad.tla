----------------------------- MODULE Gen_Monad -----------------------------
(* Spec -> code: every pipeline  start ; <= Depth chaining combinators ; one    *)
(* terminal operation  over Result and over Maybe, with the outcome the          *)
(* specification gives; the laws of Monad.tla are checked as invariants.         *)
EXTENDS Monad, IOUtils, TLC, Json
VARIABLES kind, cur, prog, done, out
vars == <<kind, cur, prog, done, out>>
Depth == IF IOEnv.MON_DEPTH = "3" THEN 3 ELSE 2
Step(op, a) == [op |-> op, a |-> a]
Init == /\ done = FALSE /\ out = <<>>
        /\ \/ kind = "res" /\ cur \in Results /\ prog = <<Step("start", cur)>>
           \/ kind = "may" /\ cur \in Maybes /\ prog = <<Step("start", cur)>>
Chain(op, a, nxt) == /\ ~done /\ Len(prog) <= Depth /\ cur' = nxt /\ prog' = Append(prog, Step(op, a)) /\ UNCHANGED <<kind, done, out>>
Term(op, a, o) == /\ ~done /\ done' = TRUE /\ out' = o /\ prog' = Append(prog, Step(op, a)) /\ UNCHANGED <<kind, cur>>
NextRes ==
    \/ \E f \in Fs : Chain("map", f, RMap(cur, f))
    \/ \E g \in Gs : Chain("map_err", g, RMapErr(cur, g))
    \/ \E k \in Ks : Chain("and_then", k, RAndThen(cur, k))
    \/ \E h \in Rs : Chain("or_else", h, ROrElse(cur, h))
    \/ \E f \in Fs : Chain("caught", f, RCaught(cur, f))
    \/ \E r2 \in {Ok(1), Err("e2")} : Chain("do_with", r2, RDo(cur, r2))
    \/ Chain("inspect", "noop", cur)
    \/ Term("unwrap", "", RUnwrap(cur)) \/ Term("unwrap_err", "", RUnwrapErr(cur)) \/ Term("unwrap_or", 3, RUnwrapOr(cur, 3))
    \/ (\E f \in Fs : Term("map_or", f, RMapOr(cur, 3, f)))
    \/ Term("is_ok", "", RIsOk(cur)) \/ Term("ok", "", ROkPart(cur)) \/ Term("err", "", RErrPart(cur))
    \/ Term("iter", "", RIter(cur)) \/ Term("attempt", "", RAttempt(cur)) \/ Term("result", "", [k |-> "res", r |-> cur])
NextMay ==
    \/ \E f \in Fs : Chain("map", f, MMap(cur, f))
    \/ \E k \in Ms : Chain("and_then", k, MAndThen(cur, k))
    \/ \E o \in Os : Chain("or_else", o, MOrElse(cur, o))
    \/ \E f \in Fs : Chain("caught", f, MCaught(cur, f))
    \/ Term("unwrap", "", MUnwrap(cur)) \/ Term("unwrap_or", 3, MUnwrapOr(cur, 3))
    \/ (\E f \in Fs : Term("map_or", f, MMapOr(cur, 3, f)))
    \/ Term("is_some", "", MIsSome(cur)) \/ Term("some", "", MSomePart(cur)) \/ Term("attempt", "", MAttempt(cur))
    \/ (\E e \in Errs : Term("ok_or", e, [k |-> "res", r |-> MOkOr(cur, e)]))
    \/ Term("maybe", "", [k |-> "may", m |-> cur])
Next == (kind = "res" /\ NextRes) \/ (kind = "may" /\ NextMay)
Spec == Init /\ [][Next]_vars
LawsHold == Laws
Emit == done => PrintT("OUT " \o ToJson([kind |-> kind, prog |-> prog, out |-> out]))
=============================================================================
