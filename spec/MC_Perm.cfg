SPECIFICATION Spec
CONSTRAINT Emit
INVARIANT SameCanon
INVARIANT SameLayout
INVARIANT SameDbc
INVARIANT SameFrame
