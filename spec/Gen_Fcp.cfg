SPECIFICATION Spec
CONSTRAINT Emit
INVARIANT SplitTransparent
INVARIANT InjectedIsFrontEndError
INVARIANT DefectFree
