------------------------------- MODULE MC_Dbc -------------------------------
(* For every schema of the universe and every boundary value of its first   *)
(* CAN message: decoding the packed frame through the DBC description       *)
(* returns the value (the +7 Motorola rule really inverts the layout's      *)
(* big-endian packing), descriptions are well placed, and each bus holds    *)
(* exactly its messages.                                                    *)
EXTENDS DbcGen, IOUtils
VARIABLES stage, S, mi, v
vars == <<stage, S, mi, v>>
EmitOn == IOEnv.DBC_EMIT = "1"

Init == stage = 0 /\ S = <<>> /\ mi = 1 /\ v = <<>>
(* the message under test: the first CAN binding, and every further binding of the SAME struct *)
Next == \/ stage = 0 /\ stage' = 1 /\ S' \in DbcSchemas /\ v' = <<>> /\ mi' = 1
        \/ /\ stage = 1 /\ stage' = 2 /\ S' = S
           /\ mi' \in {k \in 1..Len(S.impls) : S.impls[k].protocol = "can" /\ S.impls[k].type = S.impls[1].type}
           /\ v' \in Vals(S, St(S.impls[1].type), 1)
Spec == Init /\ [][Next]_vars

Impl1 == S.impls[mi]
Msg1  == DbcMessage(S, Impl1)
FrameBits == PackBits(S, Impl1, v)
Expected ==  \* what decoding through the DBC must give: every present leaf with its value
    LET lay == LayoutOf(S, Impl1, TRUE)
        lv  == LeafVals(S, StructT(Impl1.type), v) IN
    { [name |-> lay[i].uname, value |-> lv[i]] :
        i \in {i \in 1..Len(lay) : Present(Msg1, Msg1.signals[i], FrameBits)} }

DecodeInvertsPack == stage = 2 => DbcDecode(Msg1, FrameBits) = Expected
UnpackInvertsPack == stage = 2 => UnpackLeaves(S, Impl1, FrameBits) = LeafVals(S, StructT(Impl1.type), v)
AllWellPlaced == stage >= 1 => \A b \in Buses(S) : \A m \in Range(DbcOf(S)[b]) : WellPlaced(m)
BusPartition  == stage >= 1 =>
    /\ \A impl \in Range(CanImpls(S)) : \E m \in Range(DbcOf(S)[BusOf(impl)]) : m.name = impl.name /\ m.id = IdOf(impl)
    /\ \A b \in Buses(S) : Len(DbcOf(S)[b]) = Cardinality({k \in 1..Len(S.impls) : S.impls[k].protocol = "can" /\ BusOf(S.impls[k]) = b})

BusList == SetToSeq(Buses(S))
Emit == (EmitOn /\ stage = 2) =>
    PrintT("OUT " \o ToJson([schema |-> S, value |-> v, impl |-> Impl1.name, id |-> IdOf(Impl1),
                             bytes |-> Bytes(FrameBits),
                             decoded |-> SetToSeq(Expected),
                             dbc |-> [k \in 1..Len(BusList) |-> [bus |-> BusList[k], messages |-> DbcOf(S)[BusList[k]]]]]))
=============================================================================
