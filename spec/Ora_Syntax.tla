------------------------------ MODULE Ora_Syntax ------------------------------
(* oracle service: descriptions and styles read from a file, text and tree out  *)
EXTENDS Syntax, Batch, Json, IOUtils
Reqs == ndJsonDeserialize(IOEnv.TRACE_FILE)
N == Len(Reqs)
Chunk == 8
TSpec == BInit /\ [][BNext(N, Chunk)]_bvars
Judge == stage = 2 =>
    LET r == Reqs[idx] IN
    PrintT("VERDICT " \o ToJson([id |-> r.id, text |-> Text(r.decls, r.style), tree |-> TreeOf(r.decls),
                                 balanced |-> IF Balanced(FileToks(r.decls, r.style)) THEN 1 ELSE 0]))
=============================================================================
