--------------------------------- MODULE Fcp ---------------------------------
(***************************************************************************)
(* Top level: the whole tool chain as one specification.                   *)
(*                                                                         *)
(*   files (text)  --Modules.Load-->  resolved declarations                *)
(*                 --SchemaOf------>  schema tree                          *)
(*                 --Verifier.WellFormed(check set of the generator)-->    *)
(*                 --GateRules.PluginCan-->                                *)
(*                 artefacts:  Dbc.DbcOf, Frame.PackBytes / CFrame.CEncode, *)
(*                             Wire.Canon, Reflect (through Syntax)        *)
(*                                                                         *)
(* Pipeline(files, g) says what `fcp generate g main.fcp out` must do for  *)
(* a tree of source files: report a front-end error, reject the schema,    *)
(* refuse it (a CAN message that does not fit), or generate - and, when it *)
(* generates, what the artefacts must say.  This module is the map of the  *)
(* specification: every other module is reachable from here.               *)
(***************************************************************************)
EXTENDS Modules, GateRules

(* declarations (Syntax / Modules vocabulary) -> schema tree (FcpSchema vocabulary) *)
FieldOf(f) ==
    LET u == ParamOf(f, "unit") IN
    IF u = <<>> THEN [name |-> f.name, id |-> f.id, type |-> f.type]
    ELSE [name |-> f.name, id |-> f.id, type |-> f.type, unit |-> <<u[1].v>>]
PairsOf(items) == LET fl == SelectSeq(items, LAMBDA x : x.k = "field") IN
                  [i \in 1..Len(fl) |-> [name |-> fl[i].name, value |-> fl[i].value]]
SignalsOf(items) == LET sg == SelectSeq(items, LAMBDA x : x.k = "signal") IN
                    [i \in 1..Len(sg) |-> [name |-> sg[i].name, fields |-> sg[i].fields]]
SchemaOf(decls) ==
    [structs  |-> Map(OfKind(decls, "struct"), LAMBDA d : [name |-> d.name, fields |-> Map(d.fields, FieldOf)]),
     enums    |-> Map(OfKind(decls, "enum"),
                      LAMBDA d : [name |-> d.name,
                                  items |-> [i \in 1..Len(d.items) |-> [name |-> d.items[i].name, value |-> IntOfNat(d.items[i].value)]]]),
     impls    |-> Map(OfKind(decls, "impl"),
                      LAMBDA d : [name |-> d.name, protocol |-> d.protocol, type |-> d.type,
                                  fields |-> PairsOf(d.items), signals |-> SignalsOf(d.items)]),
     services |-> Map(OfKind(decls, "service"), LAMBDA d : [name |-> d.name, id |-> d.id, methods |-> d.methods]),
     devices  |-> Map(OfKind(decls, "device"), LAMBDA d : [name |-> d.name, fields |-> d.fields])]

Pipeline(files, g) ==
    LET r == LoadAll(files) IN
    IF ~r.ok THEN [outcome |-> "front-end-error", why |-> r.why, file |-> r.file]
    ELSE LET s == SchemaOf(r.decls) IN
         IF ~WellFormed(s, CSetOf(g)) THEN [outcome |-> "rejected", fails |-> FailSeq(s, CSetOf(g))]
         ELSE IF ~PluginCan(s, g) THEN [outcome |-> "refused"]
         ELSE [outcome |-> "generated"]

(* what the front end, the verifier and the generators agree on, whatever the split into files *)
SplitInvariant(filesA, filesB, g) ==
    (LoadAll(filesA).ok /\ LoadAll(filesB).ok /\ SameDeclarations(LoadAll(filesA).decls, LoadAll(filesB).decls))
        => Pipeline(filesA, g).outcome = Pipeline(filesB, g).outcome
=============================================================================
