SPECIFICATION Spec
CONSTRAINT Emit
INVARIANT InvIds
INVARIANT RoundTrip
