SPECIFICATION MCSpec
CONSTRAINT Emit
INVARIANT AllInRange
INVARIANT RoundTrip
INVARIANT CursorExact
INVARIANT SealedIsCanon
INVARIANT DoneIsParse
INVARIANT ErrIsParseFail
INVARIANT TruncErr
INVARIANT NoSpuriousErr
INVARIANT WorkBound
INVARIANT OnlyTailPadding
