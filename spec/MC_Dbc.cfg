SPECIFICATION Spec
CONSTRAINT Emit
INVARIANT DecodeInvertsPack
INVARIANT UnpackInvertsPack
INVARIANT AllWellPlaced
INVARIANT BusPartition
