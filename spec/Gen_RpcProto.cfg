SPECIFICATION Spec
INVARIANT TypeOK
INVARIANT OneWaiter
CONSTRAINT Emit
