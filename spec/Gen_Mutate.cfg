SPECIFICATION Spec
CONSTRAINT Emit
