SPECIFICATION Spec
CONSTRAINT Emit
INVARIANT VerdictIsWF
INVARIANT OrderIndependent
