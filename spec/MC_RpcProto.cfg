SPECIFICATION Spec
INVARIANT TypeOK
INVARIANT OneWaiter
INVARIANT Correct
INVARIANT NoBroken
PROPERTY Live
