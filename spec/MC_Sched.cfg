SPECIFICATION Spec
CONSTANT W = 3
INVARIANT NoPeriodNeverSent
INVARIANT FramesAreCurrent
PROPERTY NeverTwiceWithinP
PROPERTY SameTickSilent
PROPERTY SentIffElapsed
