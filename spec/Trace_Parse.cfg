SPECIFICATION TSpec
CONSTRAINT Judge
