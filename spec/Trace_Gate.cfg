SPECIFICATION TSpec
CONSTRAINT Judge
