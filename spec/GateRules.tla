------------------------------ MODULE GateRules ------------------------------
(* constant-level rules of the generate command, shared by the Gate machine   *)
(* and by Trace_Gate                                                           *)
EXTENDS Verifier

CSetOf(g) == IF g \in {"dbc", "can_c"} THEN g ELSE "general"
(* the DBC and C plug-ins can only describe CAN messages that fit a frame and have an id *)
PluginCan(tree, g) ==
    g \in {"dbc", "can_c"} =>
        \A im \in Range(tree.impls) : im.protocol = "can" => (Has(im.fields, "id") /\ Fits(tree, im))

Paths(fl) == {fl[i].path : i \in 1..Len(fl)}
Changed(a, b, p) == (p \in DOMAIN b) /\ (p \notin DOMAIN a \/ a[p] # b[p])
LastWrite(fl, p) == fl[CHOOSE i \in 1..Len(fl) : fl[i].path = p /\ \A j \in (i + 1)..Len(fl) : fl[j].path # p].contents


(* a manager keeps the checks of every plug-in it was used with: the check set in force is the union *)
WellFormedAcc(s, gens) == GeneralWF(s) /\ ("dbc" \in gens => DbcWF(s)) /\ ("can_c" \in gens => CanCWF(s))

(* directory before/after as functions path -> contents *)
Untouched(a, b)  == a = b
WroteExactly(a, b, fl) ==
    /\ \A p \in Paths(fl) : p \in DOMAIN b /\ b[p] = LastWrite(fl, p)
    /\ \A p \in DOMAIN b : Changed(a, b, p) => p \in Paths(fl)
=============================================================================
