------------------------------- MODULE Mutate -------------------------------
(***************************************************************************)
(* The negative space of the language: token-level mutations of a valid    *)
(* token sequence, truncations, and the out-of-domain substitutions the    *)
(* grammar admits but the schema model does not (float field ids, string   *)
(* enum values, unknown or ill-arity parameters, empty enums, float array  *)
(* sizes, wrong version).  The specification does not say WHICH outcome a  *)
(* mutated text has - only the outcome protocol of ParseOutcome.           *)
(***************************************************************************)
EXTENDS Syntax

Vocabulary == << W("struct"), W("enum"), W("impl"), W("Optional"), W("u8"), W("x1"), W("7"), W("2.5"), Q("s"),
                 P("{"), P("}"), P("["), P("]"), P(","), P(":"), P("@"), P("|"), P("("), P(")"), P(";"), P("="), P("."), W("mod"),
                 W("signal"), W("as"), W("for"), W("returns"), W("-"), P("\""), P("/*"), W("version") >>

DeleteAt(t, i)      == SubSeq(t, 1, i - 1) \o SubSeq(t, i + 1, Len(t))
DuplicateAt(t, i)   == SubSeq(t, 1, i) \o SubSeq(t, i, Len(t))
SwapAt(t, i)        == SubSeq(t, 1, i - 1) \o <<t[i + 1], t[i]>> \o SubSeq(t, i + 2, Len(t))
ReplaceAt(t, i, x)  == SubSeq(t, 1, i - 1) \o <<x>> \o SubSeq(t, i + 1, Len(t))
TruncateToks(t, k)  == SubSeq(t, 1, k)

(* out-of-domain literals: replace the token after a marker token *)
Positions(t, s) == {i \in 1..Len(t) : t[i].s = s}
Subst(t, after, x) == { ReplaceAt(t, i + 1, x) : i \in {i \in Positions(t, after) : i < Len(t)} }

(* the outcome protocol of parsing (C11): what a call may do *)
ParseOutcome(e) ==
    CASE e.outcome = "ok"  -> "ok"
      [] e.outcome = "err" ->
            IF e.rendered # 1 THEN "error-value-not-renderable"
            ELSE IF \E i \in 1..Len(e.citations) :
                        LET c == e.citations[i] IN
                        ~(\E j \in 1..Len(e.sources) : e.sources[j].name = c.file /\ c.line >= 1 /\ c.line <= e.sources[j].lines)
                 THEN "cited-line-does-not-exist"
                 ELSE "ok"
      [] e.outcome = "raised"  -> "exception-escaped"
      [] e.outcome = "timeout" -> "did-not-terminate"
      [] OTHER -> "unknown-outcome"
=============================================================================
