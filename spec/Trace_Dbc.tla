------------------------------ MODULE Trace_Dbc ------------------------------
(***************************************************************************)
(* Code -> spec for the DBC generator.  One event per generate() call:     *)
(*   [id, schema, ok, files : seq of [bus, messages]] where messages is     *)
(*   what an independent reader found in the generated text, plus           *)
(*   values : seq of [impl, value] for which the specification is asked to  *)
(*   pack frames (oracle part, fed to cantools by the harness).             *)
(* The event is accepted iff the files are exactly DbcOf(schema).           *)
(***************************************************************************)
EXTENDS Dbc, Batch, Json, IOUtils, SequencesExt

Events == ndJsonDeserialize(IOEnv.TRACE_FILE)
N == Len(Events)
Chunk == 8

SigProj(s) == [name |-> s.name, start |-> s.start, len |-> s.len, order |-> s.order, signed |-> s.signed,
               float |-> s.float, unit |-> s.unit, is_mux |-> s.is_mux, mux_ids |-> Range(s.mux_ids),
               mux_signal |-> s.mux_signal]
MsgDiff(e, o) ==
    CASE e.id # o.id -> "message-id"
      [] e.name # o.name -> "message-name"
      [] e.len # o.len -> "message-length"
      [] {s.name : s \in Range(e.signals)} # {s.name : s \in Range(o.signals)} \/ Len(e.signals) # Len(o.signals)
            -> "signal-set"
      [] OTHER ->
          LET bad == {s \in Range(e.signals) : \A t \in Range(o.signals) : SigProj(t) # SigProj(s)} IN
          IF bad = {} THEN "ok"
          ELSE LET s == CHOOSE s \in bad : TRUE
                   t == CHOOSE t \in Range(o.signals) : t.name = s.name IN
               CASE s.start # t.start -> "signal-start"
                 [] s.len # t.len -> "signal-length"
                 [] s.order # t.order -> "signal-byte-order"
                 [] s.signed # t.signed -> "signal-signedness"
                 [] s.float # t.float -> "signal-value-type"
                 [] s.unit # t.unit -> "signal-unit"
                 [] OTHER -> "signal-multiplexing"

FileDiff(exp, file) ==
    IF Len(exp) # Len(file.messages) THEN "message-count"
    ELSE LET d == [k \in 1..Len(exp) |->
                     IF \E j \in 1..Len(file.messages) : file.messages[j].name = exp[k].name /\ file.messages[j].id = exp[k].id
                     THEN MsgDiff(exp[k], file.messages[CHOOSE j \in 1..Len(file.messages) :
                                                 file.messages[j].name = exp[k].name /\ file.messages[j].id = exp[k].id])
                     ELSE "message-missing"] IN
         IF \A k \in 1..Len(d) : d[k] = "ok" THEN "ok" ELSE d[CHOOSE k \in 1..Len(d) : d[k] # "ok"]

Clause(e) ==
    IF ~Generable(e.schema) THEN (IF e.ok = 1 THEN "generated-ungenerable" ELSE "ok")
    ELSE IF e.ok = 0 THEN "failed-on-generable-schema"
    ELSE LET exp == DbcOf(e.schema) IN
         IF {f.bus : f \in Range(e.files)} # DOMAIN exp \/ Len(e.files) # Cardinality(DOMAIN exp) THEN "bus-set"
         ELSE LET d == [k \in 1..Len(e.files) |-> FileDiff(exp[e.files[k].bus], e.files[k])] IN
              IF \A k \in 1..Len(d) : d[k] = "ok" THEN "ok" ELSE d[CHOOSE k \in 1..Len(d) : d[k] # "ok"]

Frames(e) ==
    [k \in 1..Len(e.values) |->
        LET impl == FirstNamed(CanImpls(e.schema), e.values[k].impl)
            fb   == PackBits(e.schema, impl, e.values[k].value)
            msg  == DbcMessage(e.schema, impl)
            lay  == LayoutOf(e.schema, impl, TRUE)
            lv   == LeafVals(e.schema, StructT(impl.type), e.values[k].value) IN
        [bytes |-> Bytes(fb), id |-> IdOf(impl), bus |-> BusOf(impl),
         decoded |-> SetToSeq({ [name |-> lay[i].uname, value |-> lv[i]] :
                                  i \in {i \in 1..Len(lay) : Present(msg, msg.signals[i], fb)} })]]

Verdict(e) == [id |-> e.id, clause |-> Clause(e),
               frames |-> IF Generable(e.schema) THEN Frames(e) ELSE <<>>]

TSpec == BInit /\ [][BNext(N, Chunk)]_bvars
Judge == stage = 2 => PrintT("VERDICT " \o ToJson(Verdict(Events[idx])))
=============================================================================
