------------------------------ MODULE SyntaxGen ------------------------------
(* Bounded set of schema descriptions covering every production of the grammar: *)
(* types nested to depth 2, 0..2 parameters per field in both orders, every      *)
(* value form, bindings with / without `as`, signal blocks, services, devices.   *)
EXTENDS Syntax, Json, IOUtils

U(w) == [k |-> "u", w |-> w]
I(w) == [k |-> "i", w |-> w]
Leafs == { U(8), I(13), [k |-> "f32"], [k |-> "f64"], [k |-> "str"], [k |-> "enum", name |-> "Ea"], [k |-> "struct", name |-> "Sa"] }
Arr(t) == [k |-> "arr", t |-> t, n |-> 3]
Dyn(t) == [k |-> "dyn", t |-> t]
Opt(t) == [k |-> "opt", t |-> t]
Depth1 == { Arr(t) : t \in Leafs } \cup { Dyn(t) : t \in Leafs } \cup { Opt(t) : t \in Leafs }
D2Leafs == { U(8), [k |-> "struct", name |-> "Sa"], [k |-> "str"] }
Depth2 == UNION { { Arr(Arr(t)), Arr(Dyn(t)), Arr(Opt(t)), Dyn(Arr(t)), Dyn(Dyn(t)), Dyn(Opt(t)),
                    Opt(Arr(t)), Opt(Dyn(t)), Opt(Opt(t)) } : t \in D2Leafs }
Depth3 == { Opt(Dyn(Arr(U(8)))), Dyn(Opt(Arr([k |-> "struct", name |-> "Sa"]))), Arr(Arr(Arr(I(13)))) }
Types == Leafs \cup Depth1 \cup Depth2 \cup (IF IOEnv.SYN_SCOPE = "thorough" THEN Depth3 ELSE {})

Unit(v) == [p |-> "unit", v |-> v]
Rng(lo, hi) == [p |-> "range", lo |-> lo, hi |-> hi]
ParamVariants == << <<>>, <<Unit("m/s")>>, <<Rng("-1.5", "0.1")>>, <<Unit("V"), Rng("0", "1e3")>>, <<Rng("-7", "7.25"), Unit("deg C")>> >>

Fld(n, id, t, ps) == [name |-> n, id |-> id, type |-> t, params |-> ps]
EnumEa == [kind |-> "enum", name |-> "Ea", items |-> <<[name |-> "Xa", value |-> 0], [name |-> "Xb", value |-> 5]>>]
StructSa == [kind |-> "struct", name |-> "Sa", fields |-> <<Fld("q", 0, U(8), <<>>)>>]
Main(t, pv) == [kind |-> "struct", name |-> "Sm",
                fields |-> <<Fld("fa", 3, t, ParamVariants[pv]), Fld("fb", 1, I(13), ParamVariants[((pv + 1) % 5) + 1])>>]

XF(n, v) == [k |-> "field", name |-> n, value |-> v]
EF(n, v) == [name |-> n, value |-> v]
Sig(n, fs) == [k |-> "signal", name |-> n, fields |-> fs]
ImplVariants ==
    << <<>>,
       << [kind |-> "impl", protocol |-> "can", type |-> "Sm", name |-> "Sm",
           items |-> <<XF("id", [i |-> 10]), XF("device", [s |-> "ecu"])>>] >>,
       << [kind |-> "impl", protocol |-> "can", type |-> "Sm", name |-> "Renamed",
           items |-> <<XF("id", [i |-> -3]), XF("scale", [f |-> "2.5"]), XF("big", [f |-> "1e3"]), XF("neg", [f |-> "-0.125"]),
                       XF("ident", [id |-> "abc"]), XF("list", [a |-> <<[i |-> 1], [s |-> "two"], [a |-> <<[i |-> 3], [id |-> "x"]>>]>>]),
                       Sig("fa", <<EF("mux_count", [i |-> 4]), EF("mux_signal", [s |-> "fb"])>>),
                       XF("after", [s |-> ""]),
                       Sig("fb", <<EF("endianess", [s |-> "big"])>>)>>] >>,
       << [kind |-> "impl", protocol |-> "uart", type |-> "Sa", name |-> "Sa", items |-> <<Sig("q", <<EF("k", [a |-> <<[i |-> 0]>>])>>)>>],
          [kind |-> "impl", protocol |-> "can", type |-> "Sa", name |-> "Other", items |-> <<XF("id", [i |-> 2047])>>] >> >>
TailVariants ==
    << <<>>,
       << [kind |-> "service", name |-> "Svc", id |-> 1,
           methods |-> <<[name |-> "get", id |-> 0, input |-> "Sa", output |-> "Sm"], [name |-> "set", id |-> 7, input |-> "Sm", output |-> "Sa"]>>],
          [kind |-> "device", name |-> "ecu", fields |-> <<EF("services", [a |-> <<[id |-> "Svc"]>>]), EF("n", [i |-> 3])>>] >>,
       << [kind |-> "device", name |-> "bare", fields |-> <<EF("kind", [id |-> "sensor"])>>],
          [kind |-> "service", name |-> "Two", id |-> 200, methods |-> <<[name |-> "m", id |-> 1, input |-> "Sm", output |-> "Sm"]>>] >> >>

(* declaration orders: bindings directly after their struct, or at the end *)
Decls(t, pv, iv, tv, order) ==
    IF order = 0
    THEN <<EnumEa, StructSa, Main(t, pv)>> \o ImplVariants[iv] \o TailVariants[tv]
    ELSE <<StructSa>> \o (IF iv = 4 THEN <<ImplVariants[4][1]>> ELSE <<>>) \o <<EnumEa, Main(t, pv)>>
         \o (IF iv = 4 THEN <<ImplVariants[4][2]>> ELSE ImplVariants[iv]) \o TailVariants[tv]

Styles == { [gaps |-> "min", seps |-> "none", seed |-> 0], [gaps |-> "sp", seps |-> "all", seed |-> 0],
            [gaps |-> "cm", seps |-> "alt", seed |-> 1], [gaps |-> "nl", seps |-> "alt", seed |-> 0] }
          \cup { [gaps |-> "mix", seps |-> "alt", seed |-> s] : s \in (IF IOEnv.SYN_SCOPE = "thorough" THEN 1..12 ELSE 1..2) }
=============================================================================
