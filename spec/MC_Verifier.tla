----------------------------- MODULE MC_Verifier -----------------------------
EXTENDS VerifierM, VerifierGen, IOUtils

VARIABLES stage, pre
allvars == <<mvars, stage, pre>>
CSets == {"general", "dbc", "can_c"}
Quick == IOEnv.VER_SCOPE = "quick"
ImplListsQ == { <<>> } \cup { <<ImplPool[i]>> : i \in 1..Len(ImplPool) }
              \cup { <<ImplPool[i], ImplPool[j]>> : i \in 1..Len(ImplPool), j \in 1..Len(ImplPool) \ {2, 7, 10} }
EnumListsQ == { e \in EnumLists : e = <<>> \/ e[1].items # <<EI("X", 0)>> \/ e[1].name = "A" }
DevVariantsQ == { d \in DevVariants : d.devices # <<>> => d.services # <<>> }

Idle == /\ tree = <<>> /\ cset = "" /\ ci = 0 /\ ki = 0 /\ ni = 0 /\ verdict = "idle" /\ failed = <<>>
Init == stage = 0 /\ pre = <<>> /\ Idle
Pick1 == /\ stage = 0 /\ stage' = 1
         /\ \E sl \in StructLists : \E el \in (IF Quick THEN EnumListsQ ELSE EnumLists) : pre' = <<sl, el>>
         /\ UNCHANGED mvars
Pick2 == /\ stage = 1 /\ stage' = 2 /\ pre' = <<>>
         /\ \E il \in (IF Quick THEN ImplListsQ ELSE ImplLists) : \E dv \in (IF Quick THEN DevVariantsQ ELSE DevVariants) :
               \E cs \in CSets :
                 /\ tree' = [structs |-> pre[1], enums |-> pre[2], impls |-> il, services |-> dv.services, devices |-> dv.devices]
                 /\ cset' = cs /\ ci' = 1 /\ ki' = 1 /\ ni' = 1 /\ verdict' = "running" /\ failed' = <<>>
(* whole trees outside the component product: messages at the 64 bit limit ending in an enum, one struct type instantiated several times *)
PickWhole == /\ stage = 0 /\ stage' = 2 /\ pre' = <<>>
             /\ \E t \in WholeTrees : \E cs \in CSets :
                   /\ tree' = t
                   /\ cset' = cs /\ ci' = 1 /\ ki' = 1 /\ ni' = 1 /\ verdict' = "running" /\ failed' = <<>>
Run == stage = 2 /\ VNext /\ UNCHANGED <<stage, pre>>
Spec == Init /\ [][Pick1 \/ Pick2 \/ PickWhole \/ Run]_allvars

Perms(n) == Permutations(1..n)
OrderIndependent ==
    (ci = 1 /\ ki = 1 /\ ni = 1 /\ verdict = "running") =>
        \A ps \in Perms(Len(tree.structs)) : \A pi \in Perms(Len(tree.impls)) :
            WellFormed(Permuted(tree, ps, pi), cset) = WellFormed(tree, cset)

B(x) == IF x THEN 1 ELSE 0
FailNames(s, cs) == FailSeq(s, cs)
Emit == (IOEnv.VER_EMIT = "1" /\ cset = "general" /\ ci = 1 /\ ki = 1 /\ ni = 1 /\ verdict = "running") =>
           PrintT("OUT " \o ToJson([tree |-> tree, general |-> B(WellFormed(tree, "general")),
                                    dbc |-> B(WellFormed(tree, "dbc")), can_c |-> B(WellFormed(tree, "can_c")),
                                    fails |-> [general |-> FailNames(tree, "general"), dbc |-> FailNames(tree, "dbc"),
                                               can_c |-> FailNames(tree, "can_c")]]))
=============================================================================
