------------------------------ MODULE RpcProto ------------------------------
(***************************************************************************)
(* The request/response protocol of the C++ service classes that fcp_cpp    *)
(* generates for every `service` block (service_client.h.j2: <S>Proxy,      *)
(* service_server.h.j2: <S>Broker, rpc.h.j2: MethodResponse) - as the code   *)
(* does it, one action per public call:                                      *)
(*                                                                           *)
(*   Call(c, m, x)   <S>Proxy::<method>(input): wrap the payload in          *)
(*                   <Input>Input{service id, method id, payload}, Send it,  *)
(*                   remember a promise under the key (service id, method    *)
(*                   id) - unordered_map::insert, so a second call under a   *)
(*                   key that is still waiting keeps the OLD promise and     *)
(*                   the new future is broken at once;                       *)
(*   ClientStep(c)   <S>Proxy::Step(): Recv one message; whatever wrapper    *)
(*                   it is (the proxy does not look at its kind), the        *)
(*                   promise waiting under its (service id, method id) is    *)
(*                   fulfilled with its payload;                             *)
(*   BrokerStep(b)   <S>Broker::Step(): Recv one message; only wrappers      *)
(*                   marked __is_method_input with the broker's service id   *)
(*                   are answered: <Output>Output{ids, impl.method(payload)} *)
(*                   is Sent.                                                *)
(*                                                                           *)
(* There is no request number on the wire: a response is matched by         *)
(* (service id, method id) alone.  `Correct` therefore holds only under a    *)
(* calling discipline; MC_RpcProto checks under which one (and shows the     *)
(* counterexamples without it), Gen_RpcProto / Trace_RpcProto bind the       *)
(* machine to the generated C++ in both directions.                          *)
(*                                                                           *)
(* net == [services |-> Seq([name, id, methods |-> Seq([name, id, input,     *)
(*                                                      output])]),          *)
(*         clients  |-> Seq([name, svc]),    one <svc>Proxy each             *)
(*         brokers  |-> Seq([name, svc]),    one <svc>Broker each            *)
(*         links    |-> Seq(<<p, q>>),       what p Sends is appended to     *)
(*                                           q's receive queue               *)
(*         seeds    |-> Seq(Nat),            payload values a caller uses    *)
(*         maxcalls |-> Nat,                 calls per client                *)
(*         discipline |-> "none" | "client" | "global"]                      *)
(* A payload is abstracted to [ptype |-> struct name, n |-> Nat]: the value  *)
(* of the struct's first field; the service implementation is H.            *)
(***************************************************************************)
EXTENDS Naturals, Sequences, FiniteSets

VARIABLES net, inbox, futs
rvars == <<net, inbox, futs>>

Range(s) == {s[i] : i \in DOMAIN s}
Svc(name) == CHOOSE s \in Range(net.services) : s.name = name
Links == {<<l[1], l[2]>> : l \in Range(net.links)}
ClientNames == {c.name : c \in Range(net.clients)}
BrokerNames == {b.name : b \in Range(net.brokers)}
Client(name) == CHOOSE c \in Range(net.clients) : c.name = name
Broker(name) == CHOOSE b \in Range(net.brokers) : b.name = name

(* the service implementation every broker is given in the conformance drivers *)
H(m, x) == (x + m.id + 1) % 8

Deliver(p, msg) == [q \in DOMAIN inbox |-> IF <<p, q>> \in Links THEN Append(inbox[q], msg) ELSE inbox[q]]

Waiting(c, sid, mid) == {k \in 1..Len(futs[c]) : futs[c][k].st = "waiting" /\ futs[c][k].sid = sid /\ futs[c][k].mid = mid}
InFlight(sid, mid) == \E q \in DOMAIN inbox : \E i \in 1..Len(inbox[q]) : inbox[q][i].sid = sid /\ inbox[q][i].mid = mid

MayCall(c, sid, mid) ==
    CASE net.discipline = "none"   -> TRUE
      [] net.discipline = "client" -> Waiting(c, sid, mid) = {}
      [] net.discipline = "global" -> (\A d \in ClientNames : Waiting(d, sid, mid) = {}) /\ ~InFlight(sid, mid)

RInit(N) ==
    /\ net = N
    /\ inbox = [p \in {c.name : c \in Range(N.clients)} \cup {b.name : b \in Range(N.brokers)} |-> <<>>]
    /\ futs = [c \in {c.name : c \in Range(N.clients)} |-> <<>>]

Call(c, mi, x) ==
    LET s == Svc(Client(c).svc)
        m == s.methods[mi]
        msg == [name |-> m.input \o "Input", input |-> TRUE, sid |-> s.id, mid |-> m.id, ptype |-> m.input, n |-> x]
        f == [sid |-> s.id, mid |-> m.id, method |-> m.name, otype |-> m.output, x |-> x,
              st |-> IF Waiting(c, s.id, m.id) = {} THEN "waiting" ELSE "broken", ptype |-> "", n |-> 0] IN
    /\ Len(futs[c]) < net.maxcalls
    /\ MayCall(c, s.id, m.id)
    /\ inbox' = Deliver(c, msg)
    /\ futs' = [futs EXCEPT ![c] = Append(@, f)]
    /\ UNCHANGED net

ClientStep(c) ==
    /\ inbox[c] # <<>>
    /\ LET msg == Head(inbox[c])
           w == Waiting(c, msg.sid, msg.mid) IN
       /\ inbox' = [inbox EXCEPT ![c] = Tail(@)]
       /\ futs' = IF w = {} THEN futs
                  ELSE LET k == CHOOSE k \in w : TRUE IN
                       [futs EXCEPT ![c][k] = [@ EXCEPT !.st = "resolved", !.ptype = msg.ptype, !.n = msg.n]]
    /\ UNCHANGED net

BrokerStep(b) ==
    /\ inbox[b] # <<>>
    /\ LET msg == Head(inbox[b])
           s == Svc(Broker(b).svc)
           ms == {i \in 1..Len(s.methods) : s.methods[i].id = msg.mid}
           rest == [inbox EXCEPT ![b] = Tail(@)] IN
       inbox' = IF msg.input /\ msg.sid = s.id /\ ms # {}
                THEN LET m == s.methods[CHOOSE i \in ms : \A j \in ms : i <= j] IN     \* the template's if-chain: first match
                     [q \in DOMAIN inbox |->
                        IF <<b, q>> \in Links
                        THEN Append(rest[q], [name |-> m.output \o "Output", input |-> FALSE, sid |-> s.id, mid |-> m.id,
                                              ptype |-> m.output, n |-> H(m, msg.n)])
                        ELSE rest[q]]
                ELSE rest
    /\ UNCHANGED <<net, futs>>

RNext == \/ \E c \in ClientNames : \E mi \in 1..Len(Svc(Client(c).svc).methods) : \E x \in Range(net.seeds) : Call(c, mi, x)
         \/ \E c \in ClientNames : ClientStep(c)
         \/ \E b \in BrokerNames : BrokerStep(b)

Fair(C, B) == /\ \A c \in C : WF_rvars(ClientStep(c))       \* C, B: the (constant) names of the net's clients and brokers
              /\ \A b \in B : WF_rvars(BrokerStep(b))

(* ---------------------------------------------------------------- properties *)
TypeOK ==
    /\ \A p \in DOMAIN inbox : \A i \in 1..Len(inbox[p]) : inbox[p][i].input \in BOOLEAN /\ inbox[p][i].n \in 0..7
    /\ \A c \in DOMAIN futs : \A k \in 1..Len(futs[c]) : futs[c][k].st \in {"waiting", "broken", "resolved"}

(* at most one promise waits under a key (the map's key is unique) *)
OneWaiter == \A c \in ClientNames : \A k1, k2 \in 1..Len(futs[c]) :
                (futs[c][k1].st = "waiting" /\ futs[c][k2].st = "waiting" /\ futs[c][k1].sid = futs[c][k2].sid
                 /\ futs[c][k1].mid = futs[c][k2].mid) => k1 = k2

MethodOf(f) == LET s == CHOOSE s \in Range(net.services) : s.id = f.sid IN
               CHOOSE m \in Range(s.methods) : m.name = f.method
(* what a caller relies on: the value it gets is the answer to ITS request *)
Correct == \A c \in ClientNames : \A k \in 1..Len(futs[c]) :
              futs[c][k].st = "resolved" => futs[c][k].ptype = futs[c][k].otype /\ futs[c][k].n = H(MethodOf(futs[c][k]), futs[c][k].x)
NoBroken == \A c \in ClientNames : \A k \in 1..Len(futs[c]) : futs[c][k].st # "broken"
(* every request is eventually answered (C, K: constant bounds on clients and calls) *)
Answered(C, K) == \A c \in C : \A k \in 1..K : (k <= Len(futs[c]) /\ futs[c][k].st = "waiting") ~> (k <= Len(futs[c]) /\ futs[c][k].st = "resolved")

(* what the conformance drivers can see *)
FutView(f) == [st |-> f.st, val |-> IF f.st # "resolved" THEN "-" ELSE IF f.ptype = f.otype THEN "v" ELSE "badtype",
               n |-> IF f.st = "resolved" /\ f.ptype = f.otype THEN f.n ELSE 0]
MsgView(m) == [name |-> m.name, sid |-> m.sid, mid |-> m.mid, n |-> m.n]
Obs == [inbox |-> [p \in DOMAIN inbox |-> [i \in 1..Len(inbox[p]) |-> MsgView(inbox[p][i])]],
        futs |-> [c \in DOMAIN futs |-> [k \in 1..Len(futs[c]) |-> FutView(futs[c][k])]]]
=============================================================================
