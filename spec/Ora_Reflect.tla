------------------------------ MODULE Ora_Reflect ------------------------------
(* text + reflection record for descriptions read from a file (resolved types)  *)
EXTENDS Reflect, Batch, Json, IOUtils
Reqs == ndJsonDeserialize(IOEnv.TRACE_FILE)
N == Len(Reqs)
Chunk == 8
TSpec == BInit /\ [][BNext(N, Chunk)]_bvars
Judge == stage = 2 =>
    LET r == Reqs[idx] IN
    PrintT("VERDICT " \o ToJson([id |-> r.id, text |-> Text(r.decls, r.style), reflect |-> Reflect(r.decls)]))
=============================================================================
