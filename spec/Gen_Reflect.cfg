SPECIFICATION Spec
CONSTRAINT Emit
INVARIANT ListsEverything
