------------------------------- MODULE Reflect -------------------------------
(***************************************************************************)
(* The reflection record of a schema (FcpV2.reflection()): every struct,   *)
(* field (name, id, flattened type chain, unit, range), enumerator,        *)
(* binding (extension fields as [name, value rendered as a string],        *)
(* signal blocks) and service, with the values declared in the source.     *)
(* `meta` (source positions) is left unconstrained.  Literal values are    *)
(* kept as literals ([i |-> ], [s |-> ] ...): their string form is the     *)
(* host language's str(), applied by the glue on both sides.               *)
(* Losslessness is Wire's round trip instantiated with the reflection      *)
(* schema (src/fcp/reflection/reflection.fcp, read from the repository).   *)
(***************************************************************************)
EXTENDS Syntax

RECURSIVE TypeChain(_)
TypeChain(t) ==
    CASE t.k \in {"u", "i"} -> <<[name |-> t.k \o ToString(t.w), type |-> IF t.k = "u" THEN "unsigned" ELSE "signed", size |-> 1]>>
      [] t.k = "f32" -> <<[name |-> "f32", type |-> "float", size |-> 1]>>
      [] t.k = "f64" -> <<[name |-> "f64", type |-> "double", size |-> 1]>>
      [] t.k = "str" -> <<[name |-> "str", type |-> "str", size |-> 1]>>
      [] t.k = "arr" -> <<[name |-> "Array", type |-> "Array", size |-> t.n]>> \o TypeChain(t.t)
      [] t.k = "dyn" -> <<[name |-> "DynamicArray", type |-> "DynamicArray", size |-> 1]>> \o TypeChain(t.t)
      [] t.k = "opt" -> <<[name |-> "Optional", type |-> "Optional", size |-> 1]>> \o TypeChain(t.t)
      [] t.k = "struct" -> <<[name |-> t.name, type |-> "Struct", size |-> 1]>>
      [] t.k = "enum"   -> <<[name |-> t.name, type |-> "Enum", size |-> 1]>>

Opt1(seq) == seq      \* <<>> | <<x>>
FieldRefl(f) ==
    LET u == ParamOf(f, "unit")  r == ParamOf(f, "range") IN
    [name |-> f.name, field_id |-> f.id, type |-> TypeChain(f.type),
     unit |-> IF u = <<>> THEN <<>> ELSE <<u[1].v>>,
     min_value |-> IF r = <<>> THEN <<>> ELSE <<[f |-> r[1].lo]>>,
     max_value |-> IF r = <<>> THEN <<>> ELSE <<[f |-> r[1].hi]>>]
StructRefl(d) == [name |-> d.name, fields |-> [i \in 1..Len(d.fields) |-> FieldRefl(d.fields[i])]]
EnumRefl(d)   == [name |-> d.name, enumeration |-> [i \in 1..Len(d.items) |-> [name |-> d.items[i].name, value |-> d.items[i].value]]]

(* a Python dict: the last entry of a name wins, keys keep the position of their first occurrence *)
DictSeq(fields) ==
    LET keep == {i \in 1..Len(fields) : \A j \in 1..(i - 1) : fields[j].name # fields[i].name}
        idx == SelectSeq([i \in 1..Len(fields) |-> i], LAMBDA i : i \in keep) IN
    [k \in 1..Len(idx) |->
        [name |-> fields[idx[k]].name,
         value |-> [lit |-> fields[CHOOSE j \in 1..Len(fields) : fields[j].name = fields[idx[k]].name
                                                               /\ \A m \in (j + 1)..Len(fields) : fields[m].name # fields[j].name].value]]]
ImplRefl(d) ==
    IF d.kind = "struct"
    THEN [name |-> d.name, protocol |-> "default", type |-> d.name, fields |-> <<>>, signals |-> <<>>]
    ELSE LET fl == SelectSeq(d.items, LAMBDA x : x.k = "field")
             sg == SelectSeq(d.items, LAMBDA x : x.k = "signal") IN
         [name |-> d.name, protocol |-> d.protocol, type |-> d.type, fields |-> DictSeq(fl),
          signals |-> [i \in 1..Len(sg) |-> [name |-> sg[i].name, fields |-> DictSeq(sg[i].fields)]]]
ServiceRefl(d) == [name |-> d.name, id |-> d.id,
                   methods |-> [i \in 1..Len(d.methods) |->
                                  [name |-> d.methods[i].name, id |-> d.methods[i].id,
                                   input |-> d.methods[i].input, output |-> d.methods[i].output]]]

Reflect(decls) ==
    [tag      |-> <<102, 99, 112>>,          \* "fcp"
     version  |-> 3000,
     structs  |-> Map(OfKind(decls, "struct"), StructRefl),
     enums    |-> Map(OfKind(decls, "enum"), EnumRefl),
     impls    |-> Map(SelectSeq(decls, LAMBDA d : d.kind \in {"struct", "impl"}), ImplRefl),
     services |-> Map(OfKind(decls, "service"), ServiceRefl)]
=============================================================================
