SPECIFICATION TSpec
CONSTRAINT Judge
