SPECIFICATION Spec
CONSTRAINT Emit
INVARIANT InSubset
INVARIANT RoundTrip
INVARIANT DlcOk
INVARIANT AgreesWithDbc
