------------------------------ MODULE Gen_Syntax ------------------------------
(* prints, for every description of SyntaxGen and every formatting style, the   *)
(* text and the tree the front end must build from it                           *)
EXTENDS SyntaxGen
VARIABLES stage, d, st
vars == <<stage, d, st>>
Init == stage = 0 /\ d = <<>> /\ st = <<>>
Next == \/ /\ stage = 0 /\ stage' = 1 /\ st' = <<>>
           /\ \E t \in Types : \E pv \in 1..5 : \E iv \in 1..4 : \E tv \in 1..3 : \E o \in {0, 1} :
                 /\ (tv = 1 \/ pv = 1 \/ t \in Leafs)          \* keep the product small: vary tails on a subset
                 /\ (o = 0 \/ pv \in {1, 4})
                 /\ d' = Decls(t, pv, iv, tv, o)
        \/ stage = 1 /\ stage' = 2 /\ d' = d /\ st' \in Styles
Spec == Init /\ [][Next]_vars

Toks == FileToks(d, st)
IsBalanced == stage = 2 => Balanced(Toks)
(* formatting never changes the tree: TreeOf does not take a style *)
Emit == stage = 2 => PrintT("OUT " \o ToJson([decls |-> d, style |-> st, text |-> Text(d, st), tree |-> TreeOf(d)]))
=============================================================================
