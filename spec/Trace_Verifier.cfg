SPECIFICATION TSpec
CONSTRAINT Judge
