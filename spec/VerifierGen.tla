----------------------------- MODULE VerifierGen -----------------------------
(* All schema trees of a small scope: <= 2 structs, <= 2 fields, one enum with  *)
(* <= 2 enumerators whose name may collide with a struct, <= 2 explicit          *)
(* bindings over {can, uart} x ids x existing/missing targets x names, one       *)
(* device listing services of which at most one is declared.                     *)
EXTENDS Verifier, WireGen

Fd(n, id, w) == [name |-> n, id |-> id, type |-> U(w)]
FieldVariants == { <<>>, <<Fd("x", 0, 8)>>, <<Fd("x", 0, 40)>>, <<Fd("x", 0, 8), Fd("y", 1, 8)>>,
                   <<Fd("x", 0, 40), Fd("y", 1, 40)>>, <<Fd("x", 0, 8), Fd("x", 1, 8)>>, <<Fd("x", 1, 40), Fd("y", 0, 8)>> }
Sx(n, fs) == [name |-> n, fields |-> fs]
StructLists ==
    { <<Sx("A", fa)>> : fa \in FieldVariants }
    \cup { <<Sx("A", fa), Sx("B", fb)>> : fa \in FieldVariants, fb \in {<<Fd("x", 0, 8)>>, <<Fd("x", 0, 40), Fd("y", 1, 40)>>} }
    \cup { <<Sx("A", <<Fd("x", 0, 8)>>), Sx("A", fb)>> : fb \in {<<Fd("x", 0, 8)>>, <<Fd("x", 0, 40), Fd("y", 1, 40)>>} }
    (* B holds an array of / a nested A: sizes 16, 48, 72, 88 bits *)
    \cup { <<Sx("A", fa), Sx("B", <<[name |-> "x", id |-> 0, type |-> tb]>>)>> :
             fa \in {<<Fd("x", 0, 8)>>, <<Fd("x", 0, 8), Fd("y", 1, 16)>>, <<Fd("x", 1, 40), Fd("y", 0, 8)>>},
             tb \in {[k |-> "arr", t |-> [k |-> "struct", name |-> "A"], n |-> 2], [k |-> "struct", name |-> "A"]} }

EI(n, v) == [name |-> n, value |-> IntOfNat(v)]
EnumLists == { <<>>, <<[name |-> "E", items |-> <<EI("X", 0)>>]>>, <<[name |-> "E", items |-> <<EI("X", 0), EI("Y", 1)>>]>>,
               <<[name |-> "E", items |-> <<EI("X", 0), EI("X", 1)>>]>>, <<[name |-> "E", items |-> <<EI("X", 0), EI("Y", 0)>>]>>,
               <<[name |-> "A", items |-> <<EI("X", 0)>>]>> }

Im(n, p, t, id) == [name |-> n, protocol |-> p, type |-> t,
                    fields |-> IF id = 0 THEN <<>> ELSE <<[name |-> "id", value |-> [i |-> id]]>>, signals |-> <<>>]
ImplPool == << Im("A", "can", "A", 1), Im("A2", "can", "A", 2), Im("A2", "can", "A", 1), Im("A", "uart", "A", 1),
               Im("Missing", "can", "Missing", 2), Im("A", "can", "A", 0), Im("A2", "can", "A", 0), Im("A", "uart", "A", 0),
               Im("B", "can", "B", 1), Im("A2", "uart", "Missing", 0),
               (* the target of a binding names a declared ENUM (E), not a struct *)
               Im("E", "can", "E", 3),
               (* a frame identifier of exactly 0, written out *)
               [Im("A", "can", "A", 1) EXCEPT !.fields = <<[name |-> "id", value |-> [i |-> 0]]>>],
               [Im("A2", "can", "A", 1) EXCEPT !.fields = <<[name |-> "id", value |-> [i |-> 0]]>>] >>
ImplLists == { <<>> } \cup { <<ImplPool[i]>> : i \in 1..Len(ImplPool) }
             \cup { <<ImplPool[i], ImplPool[j]>> : i \in 1..Len(ImplPool), j \in 1..Len(ImplPool) } 

Svc(n) == [name |-> n, id |-> 0, methods |-> <<[name |-> "m", id |-> 0, input |-> "A", output |-> "A"]>>]
Dev(svs) == [name |-> "dev", fields |-> IF svs = <<>> THEN <<[name |-> "kind", value |-> [s |-> "k"]]>>
                                         ELSE <<[name |-> "services", value |-> [a |-> [i \in 1..Len(svs) |-> [id |-> svs[i]]]]]>>]
DevVariants == { [services |-> <<>>, devices |-> <<>>],
                 [services |-> <<Svc("S")>>, devices |-> <<Dev(<<"S">>)>>],
                 [services |-> <<Svc("S")>>, devices |-> <<Dev(<<"S", "T">>)>>],
                 [services |-> <<>>, devices |-> <<Dev(<<>>)>>] }

(* messages at the 64 bit limit whose last bits are an enum: a single enumerator 0 (one bit), two enumerators, a 2 bit enum, declared
   lowest-first and highest-first; the enum also inside an array *)
EnumAt(w, items, arr) ==
    [structs |-> <<Sx("A", <<Fd("x", 0, w), [name |-> "y", id |-> 1,
                                           type |-> IF arr THEN [k |-> "arr", t |-> [k |-> "enum", name |-> "E"], n |-> 2]
                                                           ELSE [k |-> "enum", name |-> "E"]]>>)>>,
     enums |-> <<[name |-> "E", items |-> items]>>, impls |-> <<Im("A", "can", "A", 1)>>, services |-> <<>>, devices |-> <<>>]
EnumSizeTrees == { EnumAt(w, items, arr) : w \in {61, 62, 63, 64}, arr \in BOOLEAN,
                     items \in { <<EI("X", 0)>>, <<EI("X", 0), EI("Y", 1)>>, <<EI("X", 0), EI("Y", 3)>>, <<EI("Y", 3), EI("X", 0)>>,
                                 <<EI("X", 2), EI("Y", 3)>> } }

(* one struct type instantiated several times in one message (sibling fields, array elements, a diamond), the type itself holding
   a struct: 8..160 bits around the limit.  A walk that marks (struct, field) pairs as visited takes the second instance for a cycle *)
Reuse(lw, ta, tb) ==
    [structs |-> <<Sx("L", <<Fd("x", 0, lw)>>), Sx("M", <<[name |-> "p", id |-> 0, type |-> St("L")]>>),
                   Sx("A", <<[name |-> "a", id |-> 0, type |-> ta]>> \o tb)>>,
     enums |-> <<>>, impls |-> <<Im("A", "can", "A", 1)>>, services |-> <<>>, devices |-> <<>>]
ReuseTrees == { Reuse(lw, ta, tb) : lw \in {8, 16, 40}, ta \in {St("M"), Arr(St("M"), 2), Arr(St("M"), 4)},
                  tb \in { <<>>, <<[name |-> "b", id |-> 1, type |-> St("M")]>>, <<[name |-> "b", id |-> 1, type |-> St("L")]>>,
                           <<[name |-> "b", id |-> 1, type |-> Arr(Arr(St("M"), 1), 2)]>> } }
WholeTrees == EnumSizeTrees \cup ReuseTrees

Trees == { [structs |-> sl, enums |-> el, impls |-> il, services |-> dv.services, devices |-> dv.devices] :
              sl \in StructLists, el \in EnumLists, il \in ImplLists, dv \in DevVariants }
         \cup WholeTrees
=============================================================================
