SPECIFICATION TSpec
CONSTRAINT Judge
