------------------------------- MODULE DbcGen -------------------------------
(* Bounded universe of CAN schemas for the DBC / C frame checks: widths,     *)
(* signed, enums, floats, nesting, unrolled arrays, big-endian byte-aligned  *)
(* signals, one multiplexed group, several buses.                            *)
EXTENDS Dbc, WireGen

FieldP(n, id, t)     == [name |-> n, id |-> id, type |-> t, gd |-> 1]
FieldPU(n, id, t, u) == [name |-> n, id |-> id, type |-> t, gd |-> 1, unit |-> <<u>>]
SigF(n, v) == [name |-> n, value |-> v]

InnerD == [name |-> "Sin", fields |-> <<FieldPU("p", 1, I(7), "V"), FieldP("q", 0, En("Ec"))>>]

PoolA == { U(1), U(5), U(8), I(7), U(16) }
PoolB == { U(1), U(5), U(8), U(16), I(7), I(16), U(32), F32, En("Ec"), En("Ed"), Arr(U(5), 2), St("Sin") }
PoolC == { U(5), U(16), I(16), F32, En("Ed"), Arr(I(3), 2) }

Variant(v) ==
    CASE v = 0 -> <<>>
      [] v = 1 -> << [name |-> "b", fields |-> <<SigF("endianess", [s |-> "big"])>>] >>
      [] v = 2 -> << [name |-> "c", fields |-> <<SigF("mux_count", [i |-> 4]), SigF("mux_signal", [s |-> "a"])>>] >>

(* dup: the same struct bound a second time with OTHER per-signal options *)
MkD2(ta, tb, tc, ida, v, buses, dup) ==
    [structs |-> <<InnerD, [name |-> "Root", fields |->
                      <<FieldPU("a", ida, ta, "m"), FieldP("b", 1 - ida, tb), FieldP("c", 2, tc)>>]>>,
     enums |-> Enums,
     impls |-> << [name |-> "Root", protocol |-> "can", type |-> "Root",
                   fields |-> <<SigF("id", [i |-> 10])>> \o (IF buses THEN <<SigF("bus", [s |-> "b2"])>> ELSE <<>>),
                   signals |-> Variant(v)] >>
                \o (IF dup THEN << [name |-> "Again", protocol |-> "can", type |-> "Root",
                                    fields |-> <<SigF("id", [i |-> 11])>>, signals |-> Variant((v + 1) % 3)],
                                   [name |-> "Third", protocol |-> "can", type |-> "Root",
                                    fields |-> <<SigF("id", [i |-> 12])>>, signals |-> Variant((v + 2) % 3)] >> ELSE <<>>)
                \o (IF buses THEN << [name |-> "SinMsg", protocol |-> "can", type |-> "Sin",
                                      fields |-> <<SigF("id", [i |-> 2047]), SigF("bus", [s |-> "b2"])>>, signals |-> <<>>],
                                     [name |-> "Other", protocol |-> "can", type |-> "Sin",
                                      fields |-> <<SigF("id", [i |-> 0])>>, signals |-> <<>>],
                                     [name |-> "Uart", protocol |-> "uart", type |-> "Sin",
                                      fields |-> <<SigF("id", [i |-> 10])>>, signals |-> <<>>] >>
                    ELSE <<>>)]

(* two multiplexed groups with DIFFERENT selectors in one message: c is selected by a, d by b *)
MkD4(ta, tb, tc, td) ==
    [structs |-> << [name |-> "Root", fields |-> <<FieldP("a", 0, ta), FieldP("b", 1, tb), FieldP("c", 2, tc), FieldP("d", 3, td)>>] >>,
     enums |-> Enums,
     impls |-> << [name |-> "Root", protocol |-> "can", type |-> "Root", fields |-> <<SigF("id", [i |-> 20])>>,
                   signals |-> << [name |-> "c", fields |-> <<SigF("mux_count", [i |-> 2]), SigF("mux_signal", [s |-> "a"])>>],
                                  [name |-> "d", fields |-> <<SigF("mux_count", [i |-> 3]), SigF("mux_signal", [s |-> "b"])>>] >>] >>]

MkD(ta, tb, tc, ida, v, buses) == MkD2(ta, tb, tc, ida, v, buses, FALSE)

BeLeavesOk(S) == \A impl \in Range(CanImpls(S)) :
                    \A l \in Range(LayoutOf(S, impl, TRUE)) : l.endian = "big" => BeOk(l)

DbcSchemas == { S \in { MkD(ta, tb, tc, ida, v, bu) : ta \in PoolA, tb \in PoolB, tc \in PoolC,
                                                     ida \in {0, 1}, v \in 0..2, bu \in BOOLEAN } :
                   Generable(S) /\ BeLeavesOk(S)
                   /\ (S.impls[1].signals = <<>> \/ Len(S.impls) = 1) }
              \cup { S \in { MkD2(ta, tb, tc, 0, v, FALSE, TRUE) : ta \in {U(8), U(5)}, tb \in {U(16), I(16), U(8), U(5)},
                                                                   tc \in {U(5), I(16)}, v \in 0..2 } :
                       Generable(S) /\ BeLeavesOk(S) }
              \cup { MkD4(ta, tb, tc, td) : ta \in {U(1), U(5)}, tb \in {U(2), U(8)}, tc \in {U(8), I(7), F32}, td \in {U(5), I(16)} }
=============================================================================
