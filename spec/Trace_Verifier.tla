---------------------------- MODULE Trace_Verifier ----------------------------
(* Code -> spec: recorded verify() calls. event == [id, tree, cset, verdict]     *)
(* with verdict "Ok" | "Err" | anything else (exception / neither).  Accepted     *)
(* iff the verdict is the one WellFormed assigns.                                 *)
EXTENDS Verifier, Batch, Json, IOUtils

Events == ndJsonDeserialize(IOEnv.TRACE_FILE)
N == Len(Events)
Chunk == 64
Verdict(e) ==
    LET wf == WellFormed(e.tree, e.cset) IN
    [id |-> e.id,
     clause |-> IF e.verdict \notin {"Ok", "Err"} THEN "neither-ok-nor-err"
                ELSE IF wf /\ e.verdict = "Err" THEN "rejected-well-formed"
                ELSE IF ~wf /\ e.verdict = "Ok" THEN "accepted-ill-formed"
                ELSE "ok",
     wf |-> IF wf THEN 1 ELSE 0,
     fails |-> FailSeq(e.tree, e.cset)]
TSpec == BInit /\ [][BNext(N, Chunk)]_bvars
Judge == stage = 2 => PrintT("VERDICT " \o ToJson(Verdict(Events[idx])))
=============================================================================
