-------------------------------- MODULE Sched --------------------------------
(***************************************************************************)
(* The scheduler of the generated C device code                             *)
(* (can_send_<dev>_msgs_scheduled): per device a previous-call timestamp    *)
(* and per message a previous-transmission timestamp, all W-bit wrapping    *)
(* unsigned (W = 32 in the generated code; W = 3 or 4 for exhaustive model  *)
(* checking - the same bit-vector arithmetic from Bits in both cases).      *)
(*                                                                          *)
(* Call(t): nothing happens when t equals the previous call's timestamp;    *)
(* otherwise every message with a period P whose (t - lastSend) mod 2^W is  *)
(* at least P is transmitted, in message order, carrying the encoding of    *)
(* the device's CURRENT value of that message, and its lastSend becomes t.  *)
(***************************************************************************)
EXTENDS CFrame, Integers

CONSTANT W                      \* width of the time stamps in bits
NoPeriod == -1

Time0 == Zeros(W)
TimeOfNat(n) == NatBits(n, W)

PeriodOf(impl) == IF Has(impl.fields, "period") THEN LookupField(impl.fields, "period", <<>>).i ELSE NoPeriod

(* P as a W-bit vector; a period that does not fit W bits can never elapse *)
Fits2W(p) == W >= 31 \/ p < 2^W
Due(p, t, last) == p # NoPeriod /\ Fits2W(p) /\ GeBits(SubBits(t, last), TimeOfNat(p))

VARIABLES sch,          \* the schema; the device's messages are its CAN bindings whose `device` field names dev, in order
          dev,          \* name of the device this scheduler belongs to
          val,          \* current value of each message (impl name -> struct value)
          lastCall,     \* timestamp of the previous call
          lastSend,     \* impl name -> timestamp of its previous transmission
          sent          \* frames handed to the send callback by the last call, in order

svars == <<sch, dev, val, lastCall, lastSend, sent>>

DeviceOf(impl) == IF Has(impl.fields, "device") THEN LitStr(LookupField(impl.fields, "device", <<>>)) ELSE "global"
DevImpls(S, d) == SelectSeq(CanImpls(S), LAMBDA impl : DeviceOf(impl) = d)
Msgs == DevImpls(sch, dev)
MsgNames == {Msgs[i].name : i \in 1..Len(Msgs)}

RECURSIVE ZeroVal(_, _)
ZeroVal(S, t) ==
    CASE t.k \in {"u", "i", "enum"} -> IntZero
      [] t.k = "f32" -> Zeros(32)
      [] t.k = "f64" -> Zeros(64)
      [] t.k = "struct" -> LET fs == GetStruct(S, t.name).fields IN
                           [n \in {fs[i].name : i \in 1..Len(fs)} |->
                               ZeroVal(S, fs[CHOOSE i \in 1..Len(fs) : fs[i].name = n].type)]

SInit(S, d) ==
    /\ sch = S /\ dev = d
    /\ val = [n \in {DevImpls(S, d)[i].name : i \in 1..Len(DevImpls(S, d))} |->
                ZeroVal(S, StructT(FirstNamed(S.impls, n).type))]      \* the device struct starts zeroed
    /\ lastCall = Time0
    /\ lastSend = [n \in DOMAIN val |-> Time0]
    /\ sent = <<>>

DueNow(impl, t) == Due(PeriodOf(impl), t, lastSend[impl.name])
FramesAt(t) ==
    LET due == SelectSeq(Msgs, LAMBDA impl : DueNow(impl, t)) IN
    [i \in 1..Len(due) |-> [msg |-> due[i].name, frame |-> CEncode(sch, due[i], val[due[i].name])]]

Call(t) ==
    /\ IF t = lastCall
       THEN /\ sent' = <<>>
            /\ UNCHANGED <<lastCall, lastSend>>
       ELSE /\ lastCall' = t
            /\ sent' = FramesAt(t)
            /\ lastSend' = [n \in DOMAIN lastSend |->
                              IF DueNow(FirstNamed(sch.impls, n), t) THEN t ELSE lastSend[n]]
    /\ UNCHANGED <<sch, dev, val>>

SetVal(n, v) ==
    /\ val' = [val EXCEPT ![n] = v]
    /\ sent' = <<>>
    /\ UNCHANGED <<sch, dev, lastCall, lastSend>>
=============================================================================
