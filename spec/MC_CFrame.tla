------------------------------ MODULE MC_CFrame ------------------------------
(* Exhaustive universe of flat CAN messages (1..3 signals in every order of  *)
(* type kinds and widths that fits 64 bits), grouped into devices of ChunkSz  *)
(* messages so that one compile of the generated C serves many messages.      *)
EXTENDS CFrame, WireGen, IOUtils
VARIABLES stage, shapes, S, m, v
vars == <<stage, shapes, S, m, v>>

Kinds == IF IOEnv.C_SCOPE = "quick"
         THEN { U(1), U(3), U(8), U(13), U(32), U(64), I(2), I(8), I(20), I(33), I(64), F32, F64, En("Ec"), En("Ed") }
         ELSE { U(1), U(2), U(3), U(7), U(8), U(9), U(13), U(16), U(24), U(31), U(32), U(33), U(63), U(64),
                I(1), I(2), I(7), I(8), I(12), I(16), I(20), I(31), I(32), I(33), I(48), I(63), I(64),
                F32, F64, En("Ea"), En("Eb"), En("Ec"), En("Ed") }
W(t) == WireWidth([enums |-> Enums], t)
Shapes == { s \in Tuples(Kinds, 1) \cup Tuples(Kinds, 2) \cup Tuples(Kinds, 3) :
               SeqSum([i \in 1..Len(s) |-> W(s[i])]) <= 64 }
ShapeSeq == SetToSeq(Shapes)
ChunkSz == 40
FName(i) == <<"fa", "fb", "fc">>[i]
MsgName(k) == "M" \o ToString(k)
NChunks(sq) == (Len(sq) + ChunkSz - 1) \div ChunkSz
ChunkShapes(sq, ci) == SubSeq(sq, (ci - 1) * ChunkSz + 1, IF ci * ChunkSz < Len(sq) THEN ci * ChunkSz ELSE Len(sq))
Mega(sq, ci) ==
    LET sh == ChunkShapes(sq, ci) IN
    [chunk |-> ci,
     structs |-> [k \in 1..Len(sh) |->
                    [name |-> MsgName(k),
                     fields |-> [i \in 1..Len(sh[k]) |-> [name |-> FName(i), id |-> i, type |-> sh[k][i], gd |-> 1]]]],
     enums |-> Enums,
     impls |-> [k \in 1..Len(sh) |->
                  [name |-> MsgName(k), protocol |-> "can", type |-> MsgName(k),
                   fields |-> << [name |-> "id", value |-> [i |-> 7 * k]],
                                 [name |-> "device", value |-> [s |-> "ecu"]] >>,
                   signals |-> <<>>]]]

Init == stage = 0 /\ shapes = SetToSeq(Shapes) /\ S = <<>> /\ m = 0 /\ v = <<>>
Next == \/ stage = 0 /\ stage' = 1 /\ (\E ci \in 1..NChunks(shapes) : S' = Mega(shapes, ci)) /\ m' = 0 /\ v' = <<>> /\ shapes' = <<>>
        \/ stage = 1 /\ stage' = 2 /\ S' = S /\ m' \in 1..Len(S.impls) /\ v' = <<>> /\ UNCHANGED shapes
        \/ stage = 2 /\ stage' = 3 /\ S' = S /\ m' = m /\ v' \in Vals(S, St(MsgName(m)), 1) /\ UNCHANGED shapes
Spec == Init /\ [][Next]_vars

Impl == S.impls[m]
Enc == CEncode(S, Impl, v)
InSubset == stage >= 2 => InCSubset(S, Impl)
RoundTrip == stage = 3 => CDecode(S, Impl, Enc.data) = v
DlcOk == stage = 3 => Enc.dlc = (BitsOf(S, St(Impl.type)) + 7) \div 8 /\ Enc.dlc <= 8 /\ Len(Enc.data) = 8
AgreesWithDbc == stage = 3 =>
    DbcDecode(DbcMessage(S, Impl), BytesBits(Enc.data)) =
        { [name |-> n, value |-> v[n]] : n \in DOMAIN v }

Emit == /\ (stage = 1 /\ IOEnv.C_EMIT = "1") => PrintT("OUT " \o ToJson([kind |-> "schema", chunk |-> S.chunk, schema |-> S]))
        /\ (stage = 3 /\ IOEnv.C_EMIT = "1") =>
              PrintT("OUT " \o ToJson([kind |-> "case", chunk |-> S.chunk, impl |-> Impl.name, value |-> v,
                                       id |-> Enc.id, dlc |-> Enc.dlc, data |-> Enc.data]))
=============================================================================
