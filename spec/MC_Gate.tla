------------------------------- MODULE MC_Gate -------------------------------
(* every generator x a catalogue of trees (well formed, each general / plug-in  *)
(* rule violated, a CAN message that does not fit) x pre-existing directory     *)
(* states x what the plug-in returns                                            *)
EXTENDS Gate, VerifierGen

Gens == {"dbc", "can_c", "cpp", "nop"}
Catalogue == { t \in Trees : /\ Len(t.impls) <= 1 /\ t.devices = <<>>
                             /\ (t.enums = <<>> \/ t.enums[1].name = "A" \/ Len(t.enums[1].items) = 2) }
SmallCatalogue == { t \in Catalogue : Len(t.structs) = 2 /\ t.structs[1].fields = <<Fd("x", 0, 8)>> /\ t.enums = <<>> /\ t.structs[2].name = "B" /\ Len(t.structs[2].fields) = 1 }
Dirs == { <<>>, [old |-> "x"], [p1 |-> "x"], [p1 |-> "x", oldc |-> "y"] }
F(p, c) == [path |-> p, contents |-> c]
FileLists == { <<>>, <<F("p1", "a")>>, <<F("p1", "a"), F("p2", "b")>>, <<F("p1", "x")>>, <<F("p1", "a"), F("p1", "b")>> }

Init == \E g \in Gens : \E t \in Catalogue : \E d \in Dirs : GInit(g, t, d)
Calls == Cardinality(registered)
Next == \/ Register \/ Verify \/ ReturnErr \/ PluginRefuse \/ WriteFile \/ ReturnOk
        \/ \E fl \in FileLists : \E cl \in {{}, {"oldc"}} : (cl = {} \/ gen = "can_c") /\ PluginGenerate(fl, cl \cap DOMAIN fs)
NextAll == Next \/ (\E g \in Gens : \E t \in SmallCatalogue : \E d \in {<<>>, [p1 |-> "x"]} : g \notin registered /\ Calls < 2 /\ NewCall(g, t, d))
Spec == Init /\ [][NextAll]_gvars
=============================================================================
