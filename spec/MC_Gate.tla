------------------------------- MODULE MC_Gate -------------------------------
(* every generator x a catalogue of trees (well formed, each general / plug-in  *)
(* rule violated, a CAN message that does not fit) x pre-existing directory     *)
(* states x what the plug-in returns                                            *)
EXTENDS Gate, VerifierGen

Gens == {"dbc", "can_c", "cpp", "nop"}
Catalogue == { t \in Trees : /\ Len(t.impls) <= 1 /\ t.devices = <<>>
                             /\ (t.enums = <<>> \/ t.enums[1].name = "A" \/ Len(t.enums[1].items) = 2) }
Dirs == { <<>>, [old |-> "x"], [p1 |-> "x"], [p1 |-> "x", oldc |-> "y"] }
F(p, c) == [path |-> p, contents |-> c]
FileLists == { <<>>, <<F("p1", "a")>>, <<F("p1", "a"), F("p2", "b")>>, <<F("p1", "x")>>, <<F("p1", "a"), F("p1", "b")>> }

Init == \E g \in Gens : \E t \in Catalogue : \E d \in Dirs : GInit(g, t, d)
Next == \/ Verify \/ ReturnErr \/ PluginRefuse \/ WriteFile \/ ReturnOk
        \/ \E fl \in FileLists : \E cl \in {{}, {"oldc"}} : (cl = {} \/ gen = "can_c") /\ PluginGenerate(fl, cl \cap DOMAIN fs)
Spec == Init /\ [][Next]_gvars
=============================================================================
