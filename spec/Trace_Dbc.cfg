SPECIFICATION TSpec
CONSTRAINT Judge
