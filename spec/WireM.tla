-------------------------------- MODULE WireM --------------------------------
(***************************************************************************)
(* The small-step encoder / decoder machine of the canonical wire format:  *)
(* a bit cursor and a work stack, one action per leaf or container, cut    *)
(* like serde._encode_* / _decode_* (Python), Buffer::PushWord/GetWord and *)
(* the decoders.h templates (C++).  Its invariants tie it to the big-step  *)
(* operators of Wire (Canon / Parse) that judge recorded calls.            *)
(***************************************************************************)
EXTENDS Wire

(* -------------------------------------------------------------- small-step *)
VARIABLES
    sch, root, val,     \* the case: fixed along a behaviour
    phase,              \* "enc" | "sealed" | "dec" | "done" | "err"
    work,               \* stack of pending items, top = head
    bits,               \* the buffer (encoder: grows; decoder: input)
    cur,                \* bit cursor of the decoder
    res,                \* decoder: stack of rebuilt values, top = last
    trunc,              \* TRUE once the sealed buffer has been cut
    steps               \* decoder steps taken (work bound)

wvars == <<sch, root, val, phase, work, bits, cur, res, trunc, steps>>

Push(items, stack) == items \o stack

EncItem(t, v) == [t |-> t, v |-> v]

WInit(S, r, v) ==
    /\ sch = S /\ root = r /\ val = v
    /\ phase = "enc"
    /\ work = <<EncItem(StructT(r), v)>>
    /\ bits = <<>> /\ cur = 0 /\ res = <<>> /\ trunc = FALSE /\ steps = 0

(* encoder: one action per item kind *)
EncTop == work[1]
EncScalar ==
    /\ phase = "enc" /\ work # <<>> /\ IsScalar(EncTop.t)
    /\ bits' = bits \o Canon(sch, EncTop.t, EncTop.v)
    /\ work' = Tail(work)
    /\ UNCHANGED <<sch, root, val, phase, cur, res, trunc, steps>>
EncStr ==
    /\ phase = "enc" /\ work # <<>> /\ EncTop.t.k = "str"
    /\ bits' = bits \o NatBits(Len(EncTop.v), CountBits)
    /\ work' = Push([i \in 1..Len(EncTop.v) |->
                        EncItem([k |-> "u", w |-> CharBits], IntOfNat(EncTop.v[i]))],
                    Tail(work))
    /\ UNCHANGED <<sch, root, val, phase, cur, res, trunc, steps>>
EncArray ==
    /\ phase = "enc" /\ work # <<>> /\ EncTop.t.k = "arr"
    /\ work' = Push([i \in 1..EncTop.t.n |-> EncItem(EncTop.t.t, EncTop.v[i])], Tail(work))
    /\ UNCHANGED <<sch, root, val, phase, bits, cur, res, trunc, steps>>
EncDyn ==
    /\ phase = "enc" /\ work # <<>> /\ EncTop.t.k = "dyn"
    /\ bits' = bits \o NatBits(Len(EncTop.v), CountBits)
    /\ work' = Push([i \in 1..Len(EncTop.v) |-> EncItem(EncTop.t.t, EncTop.v[i])], Tail(work))
    /\ UNCHANGED <<sch, root, val, phase, cur, res, trunc, steps>>
EncOpt ==
    /\ phase = "enc" /\ work # <<>> /\ EncTop.t.k = "opt"
    /\ bits' = bits \o NatBits(IF EncTop.v = <<>> THEN 0 ELSE 1, FlagBits)
    /\ work' = Push([i \in 1..Len(EncTop.v) |-> EncItem(EncTop.t.t, EncTop.v[i])], Tail(work))
    /\ UNCHANGED <<sch, root, val, phase, cur, res, trunc, steps>>
EncStruct ==
    /\ phase = "enc" /\ work # <<>> /\ EncTop.t.k = "struct"
    /\ LET fs == SortedById(GetStruct(sch, EncTop.t.name).fields) IN
       work' = Push([i \in 1..Len(fs) |-> EncItem(fs[i].type, EncTop.v[fs[i].name])], Tail(work))
    /\ UNCHANGED <<sch, root, val, phase, bits, cur, res, trunc, steps>>
Seal ==
    /\ phase = "enc" /\ work = <<>>
    /\ bits' = Pad8(bits)
    /\ phase' = "sealed"
    /\ UNCHANGED <<sch, root, val, work, cur, res, trunc, steps>>

(* the sealed buffer is handed to the decoder whole, or cut at a byte boundary *)
StartDecode ==
    /\ phase = "sealed"
    /\ phase' = "dec"
    /\ work' = <<[op |-> "rd", t |-> StructT(root)]>>
    /\ UNCHANGED <<sch, root, val, bits, cur, res, trunc, steps>>
Truncate(k) ==
    /\ phase = "sealed" /\ ~trunc /\ 8 * k < Len(bits)
    /\ bits' = Take(bits, 8 * k)
    /\ trunc' = TRUE
    /\ UNCHANGED <<sch, root, val, phase, work, cur, res, steps>>

Rd(t) == [op |-> "rd", t |-> t]
DecTop == work[1]
Avail == Len(bits) - cur
Window(w) == SubSeq(bits, cur + 1, cur + w)

DecOverrun(need) ==
    /\ Avail < need
    /\ phase' = "err"
    /\ UNCHANGED <<sch, root, val, work, bits, cur, res, trunc>>

DecScalar ==
    /\ phase = "dec" /\ work # <<>> /\ DecTop.op = "rd" /\ IsScalar(DecTop.t)
    /\ steps' = steps + 1
    /\ LET w == WireWidth(sch, DecTop.t) IN
       \/ DecOverrun(w)
       \/ /\ Avail >= w
          /\ res' = Append(res, Parse(sch, DecTop.t, Window(w)).v)
          /\ cur' = cur + w
          /\ work' = Tail(work)
          /\ UNCHANGED <<sch, root, val, phase, bits, trunc>>
DecCount(kind) ==
    /\ phase = "dec" /\ work # <<>> /\ DecTop.op = "rd" /\ DecTop.t.k = kind
    /\ steps' = steps + 1
    /\ \/ DecOverrun(CountBits)
       \/ /\ Avail >= CountBits
          /\ LET c == Window(CountBits)
                 left == Avail - CountBits IN
             IF Len(Strip(c)) > 24 \/ BitsNat(Strip(c)) > left
             THEN /\ phase' = "err"
                  /\ UNCHANGED <<sch, root, val, work, bits, cur, res, trunc>>
             ELSE LET n == BitsNat(Strip(c))
                      et == IF kind = "str" THEN [k |-> "char"] ELSE DecTop.t.t IN
                  /\ cur' = cur + CountBits
                  /\ work' = Push([i \in 1..n |-> Rd(et)] \o <<[op |-> "mkseq", n |-> n]>>, Tail(work))
                  /\ UNCHANGED <<sch, root, val, phase, bits, res, trunc>>
DecChar ==
    /\ phase = "dec" /\ work # <<>> /\ DecTop.op = "rd" /\ DecTop.t.k = "char"
    /\ steps' = steps + 1
    /\ \/ DecOverrun(CharBits)
       \/ /\ Avail >= CharBits
          /\ res' = Append(res, BitsNat(Window(CharBits)))
          /\ cur' = cur + CharBits
          /\ work' = Tail(work)
          /\ UNCHANGED <<sch, root, val, phase, bits, trunc>>
DecArray ==
    /\ phase = "dec" /\ work # <<>> /\ DecTop.op = "rd" /\ DecTop.t.k = "arr"
    /\ steps' = steps + 1
    /\ work' = Push([i \in 1..DecTop.t.n |-> Rd(DecTop.t.t)] \o <<[op |-> "mkseq", n |-> DecTop.t.n]>>,
                    Tail(work))
    /\ UNCHANGED <<sch, root, val, phase, bits, cur, res, trunc>>
DecOpt ==
    /\ phase = "dec" /\ work # <<>> /\ DecTop.op = "rd" /\ DecTop.t.k = "opt"
    /\ steps' = steps + 1
    /\ \/ DecOverrun(FlagBits)
       \/ /\ Avail >= FlagBits
          /\ LET n == IF Strip(Window(FlagBits)) = <<>> THEN 0 ELSE 1 IN
             /\ cur' = cur + FlagBits
             /\ work' = Push([i \in 1..n |-> Rd(DecTop.t.t)] \o <<[op |-> "mkseq", n |-> n]>>, Tail(work))
          /\ UNCHANGED <<sch, root, val, phase, bits, res, trunc>>
DecStruct ==
    /\ phase = "dec" /\ work # <<>> /\ DecTop.op = "rd" /\ DecTop.t.k = "struct"
    /\ steps' = steps + 1
    /\ LET fs == SortedById(GetStruct(sch, DecTop.t.name).fields) IN
       work' = Push([i \in 1..Len(fs) |-> Rd(fs[i].type)]
                    \o <<[op |-> "mkstruct", names |-> [i \in 1..Len(fs) |-> fs[i].name]]>>,
                    Tail(work))
    /\ UNCHANGED <<sch, root, val, phase, bits, cur, res, trunc>>
MkSeq ==
    /\ phase = "dec" /\ work # <<>> /\ DecTop.op = "mkseq"
    /\ LET n == DecTop.n IN
       res' = Append(Take(res, Len(res) - n), Drop(res, Len(res) - n))
    /\ work' = Tail(work)
    /\ UNCHANGED <<sch, root, val, phase, bits, cur, trunc, steps>>
MkStruct ==
    /\ phase = "dec" /\ work # <<>> /\ DecTop.op = "mkstruct"
    /\ LET ns == DecTop.names  n == Len(ns)  base == Len(res) - n IN
       res' = Append(Take(res, base),
                     [f \in Range(ns) |->
                        res[base + (CHOOSE i \in 1..n : ns[i] = f)]])
    /\ work' = Tail(work)
    /\ UNCHANGED <<sch, root, val, phase, bits, cur, trunc, steps>>
Finish ==
    /\ phase = "dec" /\ work = <<>>
    /\ phase' = "done"
    /\ UNCHANGED <<sch, root, val, work, bits, cur, res, trunc, steps>>

EncNext == EncScalar \/ EncStr \/ EncArray \/ EncDyn \/ EncOpt \/ EncStruct \/ Seal
DecNext == DecScalar \/ DecCount("str") \/ DecCount("dyn") \/ DecChar \/ DecArray
           \/ DecOpt \/ DecStruct \/ MkSeq \/ MkStruct \/ Finish
WNext == EncNext \/ StartDecode \/ (\E k \in 0..64 : Truncate(k)) \/ DecNext

(* ------------------------------------------------------------- properties *)
(* decode(encode(v)) = v, bit for bit (C01)                                 *)
RoundTrip   == phase = "done" => ~trunc /\ Len(res) = 1 /\ res[1] = val
(* the decoder consumed exactly the encoded bits, only tail padding is left *)
CursorExact == phase = "done" => Len(bits) - cur < 8
                                 /\ \A i \in (cur + 1)..Len(bits) : bits[i] = 0
(* the small-step encoder produces the big-step canonical encoding (C02)    *)
SealedIsCanon == phase \in {"sealed", "dec", "done", "err"} /\ ~trunc
                    => bits = CanonBits(sch, root, val)
(* ... and the small-step decoder agrees with the big-step parser           *)
DoneIsParse == phase = "done" =>
                  LET p == Parse(sch, StructT(root), bits) IN p.ok /\ p.v = res[1]
ErrIsParseFail == phase = "err" => ~Parse(sch, StructT(root), bits).ok
(* a strict byte prefix of a valid encoding never decodes (C16)             *)
TruncErr    == trunc => phase # "done"
(* an untruncated canonical buffer never overruns                           *)
NoSpuriousErr == phase = "err" => trunc
(* decoder work is bounded by the input length: every step but the         *)
(* structural ones consumes input                                           *)
WorkBound   == steps <= 2 * Len(bits) + 4 * 8
(* encoder format clauses *)
OnlyTailPadding == phase = "sealed" /\ ~trunc =>
                      LET raw == Canon(sch, StructT(root), val) IN
                      /\ Len(bits) = 8 * ((Len(raw) + 7) \div 8)
                      /\ Take(bits, Len(raw)) = raw
                      /\ \A i \in (Len(raw) + 1)..Len(bits) : bits[i] = 0
=============================================================================
