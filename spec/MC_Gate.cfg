SPECIFICATION Spec
INVARIANT RejectWritesNothing
INVARIANT AcceptWritesExactly
INVARIANT ErrIffIllFormed
INVARIANT OwnChecksInForce
PROPERTY OnlyAfterOk
