SPECIFICATION Spec
INVARIANT RejectWritesNothing
INVARIANT AcceptWritesExactly
INVARIANT ErrIffIllFormed
PROPERTY OnlyAfterOk
