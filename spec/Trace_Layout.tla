---------------------------- MODULE Trace_Layout ----------------------------
(***************************************************************************)
(* Code -> spec for the packed layout: recorded histories of generate()    *)
(* calls on ONE encoder object are validated against the specification.    *)
(* trace == [id, schema, unroll, calls : seq of [impl, ret]] ; ret is the  *)
(* list of leaves the real PackedEncoder returned (or [raised |-> 1]).     *)
(* By MC_Layout's HistoryIndependent invariant the state the machine is in *)
(* after any history allows exactly one answer for the next call:          *)
(* LayoutOf(schema, impl, unroll).  Verdicts are total: one clause per     *)
(* call, naming the first leaf and attribute that differs.                 *)
(***************************************************************************)
EXTENDS Layout, Batch, Json, IOUtils, Sequences

Traces == ndJsonDeserialize(IOEnv.TRACE_FILE)
N == Len(Traces)
Chunk == 16

Proj(l) == [name |-> l.name, start |-> l.start, len |-> l.len, endian |-> l.endian,
            ext |-> Range(l.ext), unit |-> l.unit]

FirstDiff(exp, obs) ==
    IF Len(exp) # Len(obs) THEN "leaf-count"
    ELSE IF \A i \in 1..Len(exp) : Proj(exp[i]) = Proj(obs[i]) THEN "ok"
    ELSE LET i == CHOOSE i \in 1..Len(exp) :
                     Proj(exp[i]) # Proj(obs[i]) /\ \A j \in 1..(i - 1) : Proj(exp[j]) = Proj(obs[j])
             e == Proj(exp[i])  o == Proj(obs[i]) IN
         CASE e.name # o.name -> "name"
           [] e.start # o.start -> "start"
           [] e.len # o.len -> "len"
           [] e.endian # o.endian -> "endian"
           [] e.ext # o.ext -> "ext"
           [] OTHER -> "unit"

CallClause(tr, i) ==
    LET c == tr.calls[i]
        impl == FirstNamed(tr.schema.impls, c.impl)
        exp == LayoutOf(tr.schema, impl, tr.unroll = 1) IN
    IF ~Layable(tr.schema, impl, tr.unroll = 1) THEN (IF c.raised = 1 THEN "ok" ELSE "laid-out-a-binding-that-must-be-refused")
    ELSE IF c.raised = 1 THEN "raised" ELSE FirstDiff(exp, c.ret)

TVerdict(tr) == [id |-> tr.id, clauses |-> [i \in 1..Len(tr.calls) |-> CallClause(tr, i)]]

TSpec == BInit /\ [][BNext(N, Chunk)]_bvars
Judge == stage = 2 => PrintT("VERDICT " \o ToJson(TVerdict(Traces[idx])))
=============================================================================
