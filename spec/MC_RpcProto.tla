----------------------------- MODULE MC_RpcProto -----------------------------
(* Exhaustive check of the RpcProto machine on small nets.  RPC_NET selects    *)
(* the topology and the calling discipline; the check states which properties  *)
(* are expected to hold and which are expected to be refuted (the design has   *)
(* no request number, see RpcProto).                                           *)
EXTENDS RpcProto, RpcNets, IOUtils, TLC
Which == IOEnv.RPC_NET
Net == CASE Which = "p2p-client"  -> P2P("client", 3)
         [] Which = "p2p-none"    -> P2P("none", 3)
         [] Which = "bus-global"  -> Bus("global", 2)
         [] Which = "bus-client"  -> Bus("client", 2)
         [] Which = "bus-global-1" -> Bus("global", 1)
         [] Which = "bus-client-1" -> Bus("client", 1)
         [] Which = "twinc-global" -> TwinC("global", 2)
         [] Which = "twinc-client" -> TwinC("client", 2)
         [] Which = "twin-global" -> Twin("global", 2)
         [] Which = "twin-client" -> Twin("client", 2)
         [] Which = "fan-client"  -> Fan("client", 2)
Init == RInit(Net)
CNames == {"c1", "c2"} \cap {c.name : c \in Range(Net.clients)}
BNames == {"b1", "b2"} \cap {b.name : b \in Range(Net.brokers)}
Spec == Init /\ [][RNext]_rvars /\ Fair(CNames, BNames)
Live == Answered(CNames, 3)
=============================================================================
