SPECIFICATION Spec
INVARIANT XLaws
INVARIANT ILaws
CONSTRAINT Emit
