SPECIFICATION Spec
INVARIANT XLaws
INVARIANT ILaws
INVARIANT CLaws
CONSTRAINT Emit
