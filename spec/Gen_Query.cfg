SPECIFICATION Spec
INVARIANT XLaws
INVARIANT ILaws
INVARIANT CLaws
INVARIANT VLaws
CONSTRAINT Emit
