--------------------------------- MODULE Rpc ---------------------------------
(***************************************************************************)
(* The rpc types the C++ generator adds to a schema with services          *)
(* (fcp_cpp.rpc.generate_rpc): for every method an <input>Input and an     *)
(* <output>Output wrapper struct                                           *)
(*     { service_id @0: ServiceId, method_id @1: <service>MethodId,         *)
(*       payload @2: <struct> }                                             *)
(* an enum ServiceId (one enumerator per service, value = service id) and  *)
(* per service an enum <service>MethodId (one enumerator per method), both *)
(* padded with an enumerator Size = 255 so that they occupy 8 bits.        *)
(* There is one wrapper per wrapper NAME (<struct>Input / <struct>Output):  *)
(* a struct used as the input of several methods has one Input wrapper     *)
(* (the last definition, at the position of the first).                    *)
(* The wrappers are ordinary structs: their bytes are Wire.Canon.          *)
(***************************************************************************)
EXTENDS Wire

EI(n, v) == [name |-> n, value |-> IntOfNat(v)]
Pad255(items) == IF \E i \in 1..Len(items) : items[i].value = IntOfNat(255) THEN items ELSE Append(items, EI("Size", 255))
ServiceIdEnum(sch) == [name |-> "ServiceId", items |-> Pad255([i \in 1..Len(sch.services) |-> EI(sch.services[i].name, sch.services[i].id)])]
MethodIdName(svc) == svc.name \o "MethodId"
MethodIdEnum(svc) == [name |-> MethodIdName(svc), items |-> Pad255([i \in 1..Len(svc.methods) |-> EI(svc.methods[i].name, svc.methods[i].id)])]

Wrapper(svc, payload, suffix) ==
    [name |-> payload \o suffix,
     fields |-> << [name |-> "service_id", id |-> 0, type |-> [k |-> "enum", name |-> "ServiceId"]],
                   [name |-> "method_id", id |-> 1, type |-> [k |-> "enum", name |-> MethodIdName(svc)]],
                   [name |-> "payload", id |-> 2, type |-> [k |-> "struct", name |-> payload]] >>,
     key |-> payload \o suffix]

(* all (key, wrapper) assignments in program order *)
Assignments(sch) ==
    Flat([s \in 1..Len(sch.services) |->
            Flat([m \in 1..Len(sch.services[s].methods) |->
                    << Wrapper(sch.services[s], sch.services[s].methods[m].input, "Input"),
                       Wrapper(sch.services[s], sch.services[s].methods[m].output, "Output") >>])])
(* a Python dict: position of the first assignment of a key, value of the last *)
Wrappers(sch) ==
    LET a == Assignments(sch)
        firsts == SelectSeq([i \in 1..Len(a) |-> i], LAMBDA i : \A j \in 1..(i - 1) : a[j].key # a[i].key) IN
    [k \in 1..Len(firsts) |->
        LET key == a[firsts[k]].key
            last == CHOOSE j \in 1..Len(a) : a[j].key = key /\ \A m \in (j + 1)..Len(a) : a[m].key # key IN
        [name |-> a[last].name, fields |-> a[last].fields]]

RpcExtend(sch) ==
    IF sch.services = <<>> THEN sch
    ELSE [sch EXCEPT !.structs = sch.structs \o Wrappers(sch),
                     !.enums = sch.enums \o <<ServiceIdEnum(sch)>> \o [i \in 1..Len(sch.services) |-> MethodIdEnum(sch.services[i])]]

IdsAreBytes(sch) == \A e \in Range(RpcExtend(sch).enums) :
                       (e.name = "ServiceId" \/ \E s \in Range(sch.services) : e.name = MethodIdName(s)) => EnumWidth(e) = 8
=============================================================================
