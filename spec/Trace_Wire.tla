----------------------------- MODULE Trace_Wire -----------------------------
(***************************************************************************)
(* Code -> spec: recorded calls of a codec (Python serde, generated C++    *)
(* static / dynamic codec) are judged by the specification.  Each event is *)
(* one public call observed at its return:                                 *)
(*   kind "enc":  [schema, root, value, ok, bytes]   encode(value)         *)
(*   kind "dec":  [schema, root, bytes, ok, value]   decode(bytes)         *)
(* An event is accepted iff it is the step the Wire specification allows   *)
(* for the logged arguments.  Verdicts are total: one line per event       *)
(* naming the first failing clause, plus the canonical bytes / value the   *)
(* specification assigns (used to feed canonical input back to decoders).  *)
(***************************************************************************)
EXTENDS Wire, Batch, TLC, Json, IOUtils, SequencesExt

Events == ndJsonDeserialize(IOEnv.TRACE_FILE)
N == Len(Events)
Chunk == 64

EncVerdict(e) ==
    LET canon == CanonBytes(e.schema, e.root, e.value) IN
    [id |-> e.id,
     clause |-> IF ~InRange(e.schema, StructT(e.root), e.value) THEN "glue:value-not-in-range"
                ELSE IF e.ok = 0 THEN "enc:raised-on-in-range-value"
                ELSE IF Len(e.bytes) # Len(canon) THEN "enc:length"
                ELSE IF e.bytes # canon THEN "enc:bytes"
                ELSE "ok",
     canon |-> canon,
     counts |-> SetToSeq(CountOffs(e.schema, StructT(e.root), e.value, 0))]

(* decoding: the spec's parser says what any byte string means *)
DecVerdict(e) ==
    LET p == ParseBytes(e.schema, e.root, e.bytes) IN
    [id |-> e.id,
     clause |-> IF ~p.ok THEN (IF e.ok = 1 THEN "dec:returned-value-from-missing-bytes" ELSE "ok")
                ELSE IF e.ok = 0 THEN "dec:raised-on-valid-input"
                ELSE IF e.value # p.v THEN "dec:value"
                ELSE "ok",
     parses |-> IF p.ok THEN 1 ELSE 0]

(* round trip through the implementation's own bytes (C01): the event is  *)
(* the pair of calls encode(value) -> bytes, decode(bytes) -> value2        *)
RtVerdict(e) ==
    [id |-> e.id,
     clause |-> IF ~InRange(e.schema, StructT(e.root), e.value) THEN "glue:value-not-in-range"
                ELSE IF e.ok = 0 THEN "rt:raised-on-in-range-value"
                ELSE IF e.value2 # e.value THEN "rt:value"
                ELSE "ok"]

Verdict(e) == CASE e.kind = "enc" -> EncVerdict(e)
                [] e.kind = "dec" -> DecVerdict(e)
                [] e.kind = "rt"  -> RtVerdict(e)

TInit == BInit
TNext == BNext(N, Chunk)
TSpec == TInit /\ [][TNext]_bvars

Judge == stage = 2 => PrintT("VERDICT " \o ToJson(Verdict(Events[idx])))
=============================================================================
