SPECIFICATION TSpec
CONSTRAINT Judge
