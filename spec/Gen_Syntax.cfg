SPECIFICATION Spec
CONSTRAINT Emit
INVARIANT IsBalanced
