-------------------------------- MODULE Bits --------------------------------
(***************************************************************************)
(* Bit-vector arithmetic on Seq({0,1}), least significant bit first.      *)
(*                                                                         *)
(* TLC integers are 32 bit; fcp-core handles 1..64 bit integers, 32 bit   *)
(* wrapping timestamps and IEEE words.  Everything wider than ~30 bits is  *)
(* therefore a bit sequence here, and integers are sign+magnitude records *)
(*      [s |-> 0|1, m |-> magnitude bits, LSB first, no leading zeros]    *)
(* Two's complement, range checks and byte packing are DEFINED here; the  *)
(* Python glue only converts int <-> sign+magnitude.                       *)
(***************************************************************************)
EXTENDS Naturals, Sequences

Bit == {0, 1}

Zeros(n) == [i \in 1..n |-> 0]
Ones(n)  == [i \in 1..n |-> 1]

Take(s, n) == SubSeq(s, 1, n)
Drop(s, n) == SubSeq(s, n + 1, Len(s))

RECURSIVE NatBits(_, _)
(* n (a TLC natural) as exactly w bits, LSB first (truncating) *)
NatBits(n, w) == IF w = 0 THEN <<>> ELSE <<n % 2>> \o NatBits(n \div 2, w - 1)

RECURSIVE BitsNat(_)
(* only for sequences whose value fits a TLC integer (callers check Len) *)
BitsNat(b) == IF b = <<>> THEN 0 ELSE b[1] + 2 * BitsNat(Tail(b))

RECURSIVE Strip(_)
(* drop high-order zeros *)
Strip(b) == IF b = <<>> THEN <<>>
            ELSE IF b[Len(b)] = 0 THEN Strip(SubSeq(b, 1, Len(b) - 1)) ELSE b

PadTo(b, w) == IF Len(b) >= w THEN Take(b, w) ELSE b \o Zeros(w - Len(b))

Inv1(b) == [i \in 1..Len(b) |-> 1 - b[i]]

RECURSIVE Inc(_)
(* increment modulo 2^Len(b) *)
Inc(b) == IF b = <<>> THEN <<>>
          ELSE IF b[1] = 0 THEN <<1>> \o Tail(b) ELSE <<0>> \o Inc(Tail(b))

Neg(b) == Inc(Inv1(b))

(* sign+magnitude integers *)
IsInt(v)  == /\ v.s \in Bit
             /\ (v.m = <<>> \/ v.m[Len(v.m)] = 1)
             /\ (v.s = 1 => v.m # <<>>)
IntZero   == [s |-> 0, m |-> <<>>]
IntOfNat(n) == [s |-> 0, m |-> Strip(NatBits(n, 31))]

(* 2^(w-1) as a magnitude *)
PowTop(w) == Zeros(w - 1) \o <<1>>

InRangeU(w, v) == v.s = 0 /\ Len(v.m) <= w
InRangeS(w, v) == IF v.s = 0 THEN Len(v.m) <= w - 1
                  ELSE Len(v.m) <= w - 1 \/ v.m = PowTop(w)

(* two's complement of width w *)
TwosEnc(w, v) == IF v.s = 1 THEN Neg(PadTo(v.m, w)) ELSE PadTo(v.m, w)
TwosDecU(b)   == [s |-> 0, m |-> Strip(b)]
TwosDecS(b)   == IF b # <<>> /\ b[Len(b)] = 1
                 THEN [s |-> 1, m |-> Strip(Neg(b))]
                 ELSE [s |-> 0, m |-> Strip(b)]

(* boundary values of a w-bit integer type, as the property lists them *)
UMax(w) == [s |-> 0, m |-> Ones(w)]
SMax(w) == [s |-> 0, m |-> Ones(w - 1)]
SMin(w) == [s |-> 1, m |-> PowTop(w)]
MinusOne == [s |-> 1, m |-> <<1>>]
One      == [s |-> 0, m |-> <<1>>]

(* bytes *)
PadLen(n)  == (8 - (n % 8)) % 8
Pad8(b)    == b \o Zeros(PadLen(Len(b)))
Bytes(b)   == [i \in 1..(Len(b) \div 8) |-> BitsNat(SubSeq(b, 8 * (i - 1) + 1, 8 * i))]
RECURSIVE Flat(_)
Flat(ss)   == IF ss = <<>> THEN <<>> ELSE ss[1] \o Flat(Tail(ss))
BytesBits(bs) == Flat([i \in 1..Len(bs) |-> NatBits(bs[i], 8)])

(* unsigned comparison / subtraction on equal-width bit vectors (used by  *)
(* the 32 bit wrapping clock of the generated C scheduler)                 *)
RECURSIVE GeBits(_, _)
GeBits(a, b) == IF a = <<>> THEN TRUE
                ELSE LET n == Len(a) IN
                     IF a[n] # b[n] THEN a[n] > b[n]
                     ELSE GeBits(Take(a, n - 1), Take(b, n - 1))
RECURSIVE AddBitsC(_, _, _)
AddBitsC(a, b, c) == IF a = <<>> THEN <<>>
                     ELSE LET s == a[1] + b[1] + c IN
                          <<s % 2>> \o AddBitsC(Tail(a), Tail(b), s \div 2)
AddBits(a, b) == AddBitsC(a, b, 0)            \* modulo 2^Len
SubBits(a, b) == AddBitsC(a, Inv1(b), 1)      \* a - b modulo 2^Len
=============================================================================
