SPECIFICATION Spec
CONSTANT Schemas = {"s1", "s2"}
CONSTANT Gens = {"dbc", "can_c", "cpp", "nop"}
CONSTRAINT Emit
INVARIANT Deterministic
