-------------------------------- MODULE Wire --------------------------------
(***************************************************************************)
(* The canonical FCP wire format.                                          *)
(*                                                                         *)
(* Big-step: Canon(sch, t, v) (value -> bits) and Parse(sch, t, bits)      *)
(* (bits -> [ok, v, rest]).  The small-step machine is in WireM; MC_Wire   *)
(* ties the two together.                                                  *)
(***************************************************************************)
EXTENDS FcpSchema

CountBits == 32       \* u32 count before strings and dynamic arrays
FlagBits  == 8        \* one-byte presence flag before optionals
CharBits  == 8

(* ---------------------------------------------------------------- big-step *)
RECURSIVE Canon(_, _, _)
Canon(sch, t, v) ==
    CASE t.k = "u"    -> TwosEnc(t.w, v)
      [] t.k = "i"    -> TwosEnc(t.w, v)
      [] t.k = "f32"  -> v
      [] t.k = "f64"  -> v
      [] t.k = "enum" -> PadTo(v.m, EnumWidth(GetEnum(sch, t.name)))
      [] t.k = "str"  -> NatBits(Len(v), CountBits)
                         \o Flat([i \in 1..Len(v) |-> NatBits(v[i], CharBits)])
      [] t.k = "arr"  -> Flat([i \in 1..t.n |-> Canon(sch, t.t, v[i])])
      [] t.k = "dyn"  -> NatBits(Len(v), CountBits)
                         \o Flat([i \in 1..Len(v) |-> Canon(sch, t.t, v[i])])
      [] t.k = "opt"  -> IF v = <<>> THEN NatBits(0, FlagBits)
                         ELSE NatBits(1, FlagBits) \o Canon(sch, t.t, v[1])
      [] t.k = "struct" ->
            LET fs == SortedById(GetStruct(sch, t.name).fields) IN
            Flat([i \in 1..Len(fs) |-> Canon(sch, fs[i].type, v[fs[i].name])])

CanonBits(sch, root, v)  == Pad8(Canon(sch, StructT(root), v))
CanonBytes(sch, root, v) == Bytes(CanonBits(sch, root, v))

(* bit offsets at which a u32 count prefix starts inside Canon(sch, t, v):  *)
(* the places a corrupted length (C16) can be written to                    *)
RECURSIVE CountOffs(_, _, _, _), SeqOffs(_, _, _, _)
CountOffs(sch, t, v, base) ==
    CASE t.k = "str"  -> {base}
      [] t.k = "dyn"  -> {base} \cup SeqOffs(sch, [i \in 1..Len(v) |-> t.t], v, base + CountBits)
      [] t.k = "arr"  -> SeqOffs(sch, [i \in 1..t.n |-> t.t], v, base)
      [] t.k = "opt"  -> IF v = <<>> THEN {} ELSE CountOffs(sch, t.t, v[1], base + FlagBits)
      [] t.k = "struct" ->
            LET fs == SortedById(GetStruct(sch, t.name).fields) IN
            SeqOffs(sch, [i \in 1..Len(fs) |-> fs[i].type], [i \in 1..Len(fs) |-> v[fs[i].name]], base)
      [] OTHER -> {}
SeqOffs(sch, ts, vs, base) ==
    IF ts = <<>> THEN {}
    ELSE CountOffs(sch, ts[1], vs[1], base)
         \cup SeqOffs(sch, Tail(ts), Tail(vs), base + Len(Canon(sch, ts[1], vs[1])))

(* decoding: every read is bounds checked *)
Fail == [ok |-> FALSE, v |-> <<>>, rest |-> <<>>]
Okv(v, rest) == [ok |-> TRUE, v |-> v, rest |-> rest]

(* a count prefix: the number it announces cannot be honoured when it      *)
(* exceeds the bits that are left (every element costs at least one bit)   *)
CountTooBig(c, rest) == Len(Strip(c)) > 24 \/ BitsNat(Strip(c)) > Len(rest)

RECURSIVE Parse(_, _, _), ParseN(_, _, _, _), ParseFields(_, _, _)
Parse(sch, t, b) ==
    CASE t.k \in {"u", "i", "f32", "f64", "enum"} ->
            LET w == WireWidth(sch, t) IN
            IF Len(b) < w THEN Fail
            ELSE Okv(CASE t.k = "u" -> TwosDecU(Take(b, w))
                       [] t.k = "i" -> TwosDecS(Take(b, w))
                       [] t.k = "enum" -> TwosDecU(Take(b, w))
                       [] OTHER -> Take(b, w),
                     Drop(b, w))
      [] t.k = "str" ->
            IF Len(b) < CountBits THEN Fail
            ELSE LET c == Take(b, CountBits)  r == Drop(b, CountBits) IN
                 IF CountTooBig(c, r) THEN Fail
                 ELSE LET n == BitsNat(Strip(c)) IN
                      IF Len(r) < n * CharBits THEN Fail
                      ELSE Okv([i \in 1..n |->
                                  BitsNat(SubSeq(r, CharBits * (i - 1) + 1, CharBits * i))],
                               Drop(r, n * CharBits))
      [] t.k = "arr" -> ParseN(sch, t.t, t.n, b)
      [] t.k = "dyn" ->
            IF Len(b) < CountBits THEN Fail
            ELSE LET c == Take(b, CountBits)  r == Drop(b, CountBits) IN
                 IF CountTooBig(c, r) THEN Fail
                 ELSE ParseN(sch, t.t, BitsNat(Strip(c)), r)
      [] t.k = "opt" ->
            IF Len(b) < FlagBits THEN Fail
            ELSE LET f == Take(b, FlagBits)  r == Drop(b, FlagBits) IN
                 IF Strip(f) = <<>> THEN Okv(<<>>, r)
                 ELSE LET p == Parse(sch, t.t, r) IN
                      IF p.ok THEN Okv(<<p.v>>, p.rest) ELSE Fail
      [] t.k = "struct" ->
            ParseFields(sch, SortedById(GetStruct(sch, t.name).fields), b)

ParseN(sch, t, n, b) ==
    IF n = 0 THEN Okv(<<>>, b)
    ELSE LET p == Parse(sch, t, b) IN
         IF ~p.ok THEN Fail
         ELSE LET q == ParseN(sch, t, n - 1, p.rest) IN
              IF q.ok THEN Okv(<<p.v>> \o q.v, q.rest) ELSE Fail

(* result: function field name -> value *)
ParseFields(sch, fs, b) ==
    IF fs = <<>> THEN Okv(<<>>, b)
    ELSE LET p == Parse(sch, fs[1].type, b) IN
         IF ~p.ok THEN Fail
         ELSE LET q == ParseFields(sch, Tail(fs), p.rest) IN
              IF ~q.ok THEN Fail
              ELSE Okv([n \in {fs[1].name} \cup DOMAIN q.v |->
                          IF n = fs[1].name THEN p.v ELSE q.v[n]], q.rest)

ParseBytes(sch, root, bytes) == Parse(sch, StructT(root), BytesBits(bytes))
=============================================================================
