------------------------------- MODULE FitGen -------------------------------
(* CAN bindings around and beyond the 64 bit limit (totals 56..200 bits, the   *)
(* excess located in the last field, the first field, a nested struct, an      *)
(* array element or an enum) and bindings with a variable-size field (string,  *)
(* dynamic array, optional) at every position, including inside a nested       *)
(* struct.                                                                     *)
EXTENDS GateRules, WireGen, IOUtils

Fdf(n, id, t) == [name |-> n, id |-> id, type |-> t]
EIt(n, v) == [name |-> n, value |-> IntOfNat(v)]
EnumW(w) == [name |-> "Ew", items |-> <<EIt("Lo", 0), EIt("Hi", 2^w - 1)>>]
Bind(extra) == [name |-> "Msg", protocol |-> "can", type |-> "Msg",
                fields |-> <<[name |-> "id", value |-> [i |-> 33]], [name |-> "device", value |-> [s |-> "ecu"]]>>, signals |-> <<>>]
MkF(inner, fields, enums) ==
    [structs |-> inner \o <<[name |-> "Msg", fields |-> fields]>>, enums |-> enums,
     impls |-> <<Bind(<<>>)>>, services |-> <<>>, devices |-> <<>>]
Sin(fs) == <<[name |-> "Sin", fields |-> fs]>>

Widths == {24, 25, 31, 32, 33, 40, 64}
SizeCases ==
    { MkF(<<>>, <<Fdf("a", 0, U(32)), Fdf("b", 1, U(w))>>, <<>>) : w \in Widths }                       \* excess in the last field
    \cup { MkF(<<>>, <<Fdf("a", 0, I(w)), Fdf("b", 1, U(32))>>, <<>>) : w \in Widths }                   \* first field
    \cup { MkF(Sin(<<Fdf("p", 0, U(w - 8)), Fdf("q", 1, I(8))>>), <<Fdf("a", 0, U(32)), Fdf("b", 1, St("Sin"))>>, <<>>) : w \in Widths }
    \cup { MkF(<<>>, <<Fdf("a", 0, U(32)), Fdf("b", 1, Arr(U(8), n))>>, <<>>) : n \in {3, 4, 5, 21} }    \* array elements
    \cup { MkF(Sin(<<Fdf("p", 0, U(12))>>), <<Fdf("a", 0, U(16)), Fdf("b", 1, Arr(St("Sin"), n))>>, <<>>) : n \in {3, 4, 5} }
    \cup { MkF(<<>>, <<Fdf("a", 0, U(62)), Fdf("b", 1, En("Ew"))>>, <<EnumW(w)>>) : w \in {1, 2, 3, 8} } \* enum
    \cup { MkF(<<>>, <<Fdf("a", 0, F64), Fdf("b", 1, U(w))>>, <<>>) : w \in {1, 8} }
    \cup { MkF(<<>>, <<Fdf("a", 0, U(64))>>, <<>>), MkF(<<>>, <<Fdf("a", 0, F64)>>, <<>>),
           MkF(<<>>, <<Fdf("b", 5, U(60)), Fdf("a", 2, U(5))>>, <<>>) }
(* the whole payload is one array of 1-bit elements (plain, signed, enum, struct of one bit, nested) around and far beyond 64 *)
BitStruct == <<[name |-> "Sin", fields |-> <<Fdf("p", 0, U(1))>>]>>
ArrayCases ==
    { MkF(<<>>, <<Fdf("a", 0, Arr(U(1), n))>>, <<>>) : n \in {63, 64, 65, 100, 200} }
    \cup { MkF(<<>>, <<Fdf("a", 0, Arr(I(1), 100))>>, <<>>), MkF(<<>>, <<Fdf("a", 0, Arr(Arr(U(1), 80), 1))>>, <<>>),
            MkF(<<>>, <<Fdf("a", 0, Arr(En("Ew"), 70))>>, <<EnumW(1)>>), MkF(BitStruct, <<Fdf("a", 0, Arr(St("Sin"), 66))>>, <<>>),
            MkF(<<>>, <<Fdf("a", 0, Arr(U(2), 33))>>, <<>>), MkF(<<>>, <<Fdf("a", 0, Arr(U(8), 9))>>, <<>>) }
VarT == { Str, Dyn(U(8)), Opt(U(8)), Opt(U(1)), Dyn(St("Sin")) }
VarCases ==
    { MkF(Sin(<<Fdf("p", 0, U(8))>>), <<Fdf("a", 0, t), Fdf("b", 1, U(8))>>, <<>>) : t \in VarT }
    \cup { MkF(Sin(<<Fdf("p", 0, U(8))>>), <<Fdf("a", 0, U(8)), Fdf("b", 1, t)>>, <<>>) : t \in VarT }
    \cup { MkF(Sin(<<Fdf("p", 0, U(8))>>), <<Fdf("a", 0, U(8)), Fdf("b", 1, t), Fdf("c", 2, U(8))>>, <<>>) : t \in VarT }
    \cup { MkF(Sin(<<Fdf("p", 0, U(8)), Fdf("q", 1, t)>>), <<Fdf("a", 0, U(8)), Fdf("b", 1, St("Sin"))>>, <<>>) : t \in VarT \ {Dyn(St("Sin"))} }
    \cup { MkF(Sin(<<Fdf("p", 0, U(8))>>), <<Fdf("a", 0, Arr(Opt(U(3)), 2))>>, <<>>) }
(* the same sizes with per-signal options on the fields that cross the limit: a big-endian signal is described from its most
   significant byte, a size test that looks at start bits only sees nothing past bit 63 *)
BindS(sigs) == [Bind(<<>>) EXCEPT !.signals = sigs]
Big(n) == [name |-> n, fields |-> <<[name |-> "endianess", value |-> [s |-> "big"]]>>]
MkFS(fields, sigs) == [MkF(<<>>, fields, <<>>) EXCEPT !.impls = <<BindS(sigs)>>]
OptionCases ==
    { MkFS(<<Fdf("a", 0, U(32)), Fdf("b", 1, U(16)), Fdf("c", 2, U(w))>>, <<Big("c")>>) : w \in {16, 32, 64} }          \* 64 (fits), 80, 112
    \cup { MkFS(<<Fdf("a", 0, U(32)), Fdf("b", 1, U(w))>>, <<Big("b")>>) : w \in {32, 64} }
    \cup { MkFS(<<Fdf("a", 0, U(32)), Fdf("b", 1, U(16)), Fdf("c", 2, U(32))>>, <<Big("a"), Big("b"), Big("c")>>),
            MkFS(<<Fdf("a", 0, U(56)), Fdf("b", 1, U(16))>>, <<Big("b")>>),
            MkFS(<<Fdf("a", 0, U(48)), Fdf("b", 1, I(32))>>, <<Big("b")>>),
            MkFS(<<Fdf("a", 0, U(32)), Fdf("b", 1, U(8)), Fdf("c", 2, U(32))>>,
                 << [name |-> "c", fields |-> <<[name |-> "mux_count", value |-> [i |-> 4]], [name |-> "mux_signal", value |-> [s |-> "b"]]>>] >>) }
(* the largest enumerator declared first; the enum inside an array and a nested struct *)
EnumDesc(w) == [name |-> "Ew", items |-> <<EIt("Hi", 2^w - 1), EIt("Mid", 1), EIt("Lo", 0)>>]
EnumOrderCases ==
    { MkF(<<>>, <<Fdf("a", 0, U(62)), Fdf("b", 1, En("Ew"))>>, <<EnumDesc(w)>>) : w \in {2, 3, 4, 8} }
    \cup { MkF(<<>>, <<Fdf("a", 0, U(56)), Fdf("b", 1, Arr(En("Ew"), 2))>>, <<EnumDesc(w)>>) : w \in {4, 5} }
    \cup { MkF(Sin(<<Fdf("p", 0, En("Ew")), Fdf("q", 1, U(30))>>), <<Fdf("a", 0, U(32)), Fdf("b", 1, St("Sin"))>>, <<EnumDesc(w)>>) : w \in {2, 3} }
(* a binding whose protocol is spelled differently (CAN, Can) is NOT a CAN binding: next to a small real one it is neither
   size-checked nor generated, whatever its size *)
OtherSpelling(p, w) ==
    [structs |-> <<[name |-> "Msg", fields |-> <<Fdf("a", 0, U(8))>>], [name |-> "Big", fields |-> <<Fdf("a", 0, U(64)), Fdf("b", 1, U(w))>>]>>,
     enums |-> <<>>,
     impls |-> <<Bind(<<>>), [name |-> "Big", protocol |-> p, type |-> "Big",
                              fields |-> <<[name |-> "id", value |-> [i |-> 34]], [name |-> "device", value |-> [s |-> "ecu"]]>>, signals |-> <<>>]>>,
     services |-> <<>>, devices |-> <<>>]
SpellingCases == { OtherSpelling(p, w) : p \in {"CAN", "Can", "canfd"}, w \in {8, 64} }
(* the documented `bitstart` signal option (ignored by the layout today): whatever it does to positions, an over-size binding stays refused *)
Bs(n, k) == [name |-> n, fields |-> <<[name |-> "bitstart", value |-> [i |-> k]]>>]
BitstartCases ==
    { MkFS(<<Fdf("a", 0, U(32)), Fdf("b", 1, U(32)), Fdf("c", 2, U(8))>>, sigs) :
        sigs \in { <<Bs("a", 40), Bs("b", 0)>>, <<Bs("c", 0)>>, <<Bs("a", 8), Bs("b", 40), Bs("c", 0)>>, <<Bs("b", 64)>> } }
    \cup { MkFS(<<Fdf("a", 0, U(32)), Fdf("b", 1, U(24))>>, <<Bs("a", 24), Bs("b", 0)>>) }          \* 56 bits: fits
FitCases == BitstartCases \cup SizeCases \cup VarCases \cup ArrayCases \cup OptionCases \cup EnumOrderCases \cup SpellingCases

VARIABLES stage, S
vars == <<stage, S>>
Init == stage = 0 /\ S = <<>>
Next == stage = 0 /\ stage' = 1 /\ S' \in FitCases
Spec == Init /\ [][Next]_vars
(* a schema is described only when every CAN binding fits; what is described is well placed *)
EmittedImpliesFits == stage = 1 => (PluginCan(S, "dbc") <=> \A im \in Range(CanImpls(S)) : Fits(S, im))
EmittedIsWellPlaced == (stage = 1 /\ PluginCan(S, "dbc")) => \A im \in Range(CanImpls(S)) : WellPlaced(DbcMessage(S, im))
Emit == stage = 1 => PrintT("OUT " \o ToJson([schema |-> S, fits |-> IF PluginCan(S, "dbc") THEN 1 ELSE 0,
                                              bits |-> IF FixedSize(S, St("Msg")) THEN BitsOf(S, St("Msg")) ELSE 0]))
=============================================================================
