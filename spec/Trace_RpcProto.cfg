SPECIFICATION Spec
CONSTRAINT Judge
