SPECIFICATION TSpec
CONSTRAINT Judge
