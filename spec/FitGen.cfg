SPECIFICATION Spec
CONSTRAINT Emit
INVARIANT EmittedImpliesFits
INVARIANT EmittedIsWellPlaced
