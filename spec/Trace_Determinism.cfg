SPECIFICATION Spec
CONSTRAINT Judge
