------------------------------ MODULE Gen_Modules ------------------------------
EXTENDS ModGen
VARIABLES stage, cs
vars == <<stage, cs>>
Which == IOEnv.MOD_WHICH      \* "resolve" | "split"
Init == stage = 0 /\ cs = <<>>
Next ==
    \/ /\ stage = 0 /\ Which = "resolve" /\ stage' = 2
       /\ \E f \in ResolveCases : cs' = [base |-> 0, files |-> f, inject |-> "none", where |-> <<>>]
    \/ /\ stage = 0 /\ Which = "split" /\ stage' = 1
       /\ \E sp \in Splits \cup SplitsTwo : (ValidSplit(sp) /\ (IOEnv.MOD_SCOPE = "thorough" \/ sp \in SplitsTwo \/ Cardinality(DOMAIN sp.files) = 2
                                                 \/ Len(sp.files[<<"main">>]) <= 3) /\ cs' = sp)
    \/ /\ stage = 1 /\ stage' = 2
       /\ \/ cs' = cs
          \/ \E p \in DOMAIN cs.files \ {<<"main">>} : \E how \in InjectHows : cs' = Inject(cs, p, how)
Spec == Init /\ [][Next]_vars

R == LoadAll(cs.files)
Single == LoadAll([p \in {<<"main">>} |-> Bases[cs.base]])
(* C08 *)
InvNoDangling == stage = 2 => NoDangling(R)
ErrNamesBoth == (stage = 2 /\ ~R.ok /\ R.why = "unresolved") => R.type # "" /\ R.struct # ""
(* C20 *)
Transparent == (stage = 2 /\ cs.base # 0 /\ cs.inject = "none") => R.ok /\ Single.ok /\ SameDeclarations(R.decls, Single.decls)
ErrNamesModule == (stage = 2 /\ cs.inject # "none") =>
                     /\ ~R.ok
                     /\ R.file = cs.where
                     /\ R.why = IF cs.inject = "deleted" THEN "missing-file" ELSE IF cs.inject \in InvalidHows THEN "invalid" ELSE cs.inject

Paths == SetToSeq(DOMAIN cs.files)
Emit == stage = 2 =>
    PrintT("OUT " \o ToJson(
        [files |-> [k \in 1..Len(Paths) |-> [path |-> Paths[k], text |-> Text(cs.files[Paths[k]], Style)]],
         inject |-> cs.inject, where |-> cs.where, base |-> cs.base,
         ok |-> IF R.ok THEN 1 ELSE 0,
         tree |-> IF R.ok THEN TreeOf(R.decls) ELSE <<>>,
         why |-> IF R.ok THEN "" ELSE R.why, file |-> IF R.ok THEN <<>> ELSE R.file,
         type |-> IF R.ok THEN "" ELSE R.type, struct |-> IF R.ok THEN "" ELSE R.struct]))
=============================================================================
