--------------------------------- MODULE Dbc ---------------------------------
(***************************************************************************)
(* What the generated DBC files must say (DbcOf) and what a DBC means      *)
(* (DbcDecode): Intel signals have their LSB at `start` and grow upwards;  *)
(* Motorola signals have their MSB at `start` (numbered byte*8+bit), run   *)
(* downwards inside the byte and continue at bit 7 of the next byte;       *)
(* signed signals are two's complement, float signals IEEE words;          *)
(* a multiplexed signal is present only when the multiplexer's value is    *)
(* one of its ids.                                                         *)
(***************************************************************************)
EXTENDS Frame

LitStr(v) == IF "s" \in DOMAIN v THEN v.s ELSE IF "id" \in DOMAIN v THEN v.id ELSE ""
Has(fields, n) == HasName(fields, n)

CanImpls(sch) == SelectSeq(sch.impls, LAMBDA i : i.protocol = "can")
BusOf(impl)   == IF Has(impl.fields, "bus") THEN LitStr(LookupField(impl.fields, "bus", <<>>)) ELSE "default"
IdOf(impl)    == LookupField(impl.fields, "id", [i |-> 0]).i

(* generation is specified to succeed only then (the converse is C14's) *)
Generable(sch) == \A impl \in Range(CanImpls(sch)) : Has(impl.fields, "id") /\ Fits(sch, impl)

MuxTargets(lay) == { LitStr(LookupField(lay[j].ext, "mux_signal", <<>>)) :
                        j \in {j \in 1..Len(lay) : Has(lay[j].ext, "mux_signal")} }

DbcSignal(lay, i) ==
    LET l == lay[i]
        muxed == Has(l.ext, "mux_count") IN
    [name   |-> l.uname,
     start  |-> IF l.endian # "little" THEN l.start + 7 ELSE l.start,
     len    |-> l.len,
     order  |-> IF l.endian = "big" THEN "big_endian" ELSE "little_endian",
     signed |-> IF l.type.k = "i" THEN 1 ELSE 0,
     float  |-> IF l.type.k \in {"f32", "f64"} THEN 1 ELSE 0,
     unit   |-> IF l.unit = <<>> THEN "" ELSE l.unit[1],
     is_mux |-> IF l.name \in MuxTargets(lay) THEN 1 ELSE 0,
     mux_ids |-> IF muxed THEN [k \in 1..LookupField(l.ext, "mux_count", <<>>).i |-> k - 1] ELSE <<>>,
     mux_signal |-> IF Has(l.ext, "mux_signal") THEN LitStr(LookupField(l.ext, "mux_signal", <<>>)) ELSE ""]

DbcMessage(sch, impl) ==
    LET lay == LayoutOf(sch, impl, TRUE) IN
    [id |-> IdOf(impl), name |-> impl.name, len |-> Dlc(lay),
     signals |-> [i \in 1..Len(lay) |-> DbcSignal(lay, i)]]

Buses(sch) == { BusOf(i) : i \in Range(CanImpls(sch)) }
DbcOf(sch) == [b \in Buses(sch) |->
                 LET mine == SelectSeq(CanImpls(sch), LAMBDA i : BusOf(i) = b) IN
                 [k \in 1..Len(mine) |-> DbcMessage(sch, mine[k])]]

(* ------------------------------------------------------ meaning of a DBC *)
RECURSIVE MotorolaPos(_, _)
(* frame bit positions of a Motorola signal, most significant bit first *)
MotorolaPos(p, n) == IF n = 0 THEN <<>>
                     ELSE <<p>> \o MotorolaPos(IF p % 8 = 0 THEN p + 15 ELSE p - 1, n - 1)
Reverse(s) == [i \in 1..Len(s) |-> s[Len(s) + 1 - i]]

(* raw value bits (LSB first) of signal sg in frame bits fb *)
RawBits(sg, fb) ==
    IF sg.order = "little_endian" THEN SubSeq(fb, sg.start + 1, sg.start + sg.len)
    ELSE LET pos == MotorolaPos(sg.start, sg.len) IN
         Reverse([i \in 1..sg.len |-> fb[pos[i] + 1]])

SigValue(sg, fb) ==
    LET b == RawBits(sg, fb) IN
    IF sg.float = 1 THEN b ELSE IF sg.signed = 1 THEN TwosDecS(b) ELSE TwosDecU(b)

InFrame(sg, n) ==
    IF sg.order = "little_endian" THEN sg.start + sg.len <= n
    ELSE \A p \in Range(MotorolaPos(sg.start, sg.len)) : p >= 0 /\ p < n

Selector(msg, sg) == CHOOSE m \in Range(msg.signals) : m.name = sg.mux_signal
Present(msg, sg, fb) ==
    sg.mux_ids = <<>> \/
    LET sel == SigValue(Selector(msg, sg), fb) IN
    \E k \in Range(sg.mux_ids) : sel = IntOfNat(k)

(* signal name -> value, for the signals that are present *)
DbcDecode(msg, fb) ==
    LET present == {i \in 1..Len(msg.signals) : Present(msg, msg.signals[i], fb)} IN
    { [name |-> msg.signals[i].name, value |-> SigValue(msg.signals[i], fb)] : i \in present }

(* no signal leaves its message, non-multiplexed signals do not overlap (C14) *)
Positions(sg) == IF sg.order = "little_endian" THEN sg.start..(sg.start + sg.len - 1)
                 ELSE Range(MotorolaPos(sg.start, sg.len))
WellPlaced(msg) ==
    /\ \A sg \in Range(msg.signals) : sg.len > 0 /\ InFrame(sg, 8 * msg.len)
    /\ \A i, j \in 1..Len(msg.signals) :
          (i # j /\ msg.signals[i].mux_ids = <<>> /\ msg.signals[j].mux_ids = <<>>)
             => Positions(msg.signals[i]) \cap Positions(msg.signals[j]) = {}
=============================================================================
