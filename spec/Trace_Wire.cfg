SPECIFICATION TSpec
CONSTRAINT Judge
