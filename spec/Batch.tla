-------------------------------- MODULE Batch --------------------------------
(* Plumbing shared by the Trace_* modules: a batch of N independent items  *)
(* (events or whole traces) read from a file is fanned out in chunks so    *)
(* that TLC's workers validate them in parallel.  stage 0 -> pick a chunk, *)
(* stage 1 -> pick an item of the chunk, stage 2 -> the item is judged.    *)
EXTENDS Naturals
VARIABLES stage, idx
bvars == <<stage, idx>>
Min2(a, b) == IF a <= b THEN a ELSE b
BInit == stage = 0 /\ idx = 0
BNext(N, C) ==
    \/ /\ stage = 0 /\ N > 0
       /\ stage' = 1
       /\ idx' \in 0..((N - 1) \div C)
    \/ /\ stage = 1
       /\ stage' = 2
       /\ idx' \in (idx * C + 1)..Min2(N, (idx + 1) * C)
=============================================================================
