------------------------------ MODULE Gen_Mutate ------------------------------
(* every single token mutation and every token prefix of a seed corpus that     *)
(* covers all productions                                                       *)
EXTENDS Mutate, SyntaxGen
VARIABLES stage, seed, toks, kind
vars == <<stage, seed, toks, kind>>

SeedStyle == [gaps |-> "sp", seps |-> "all", seed |-> 0]
XStyle == [gaps |-> "xc", seps |-> "all", seed |-> 0]
SeedTypes == { [k |-> "struct", name |-> "Sa"], Opt(Arr(U(8))), Dyn([k |-> "enum", name |-> "Ea"]) }
Seeds == { Decls(t, pv, iv, tv, 0) : t \in SeedTypes, pv \in {1, 4}, iv \in {2, 3}, tv \in {1, 2} }
         \cup { Decls(U(8), 5, 4, 3, 1) }
         \cup { <<[kind |-> "mod", path |-> <<"a", "b">>]>> \o Decls(U(8), 1, 1, 1, 0) }

Init == stage = 0 /\ seed = <<>> /\ toks = <<>> /\ kind = ""
PickSeed == stage = 0 /\ stage' = 1 /\ seed' \in Seeds /\ toks' = <<>> /\ kind' = ""
T0 == FileToks(seed, SeedStyle)
MutateStep ==
    /\ stage = 1 /\ stage' = 2 /\ seed' = seed
    /\ \/ \E i \in 1..Len(T0) : toks' = DeleteAt(T0, i) /\ kind' = "delete"
       \/ \E i \in 1..Len(T0) : toks' = DuplicateAt(T0, i) /\ kind' = "duplicate"
       \/ \E i \in 1..(Len(T0) - 1) : toks' = SwapAt(T0, i) /\ kind' = "swap"
       \/ \E i \in 1..Len(T0) : \E v \in 1..Len(Vocabulary) :
             (IOEnv.MUT_SCOPE = "thorough" \/ (i + v) % 4 = 0) /\ toks' = ReplaceAt(T0, i, Vocabulary[v]) /\ kind' = "replace"
       \/ \E k \in 0..(Len(T0) - 1) : toks' = TruncateToks(T0, k) /\ kind' = "truncate"
       \/ toks' \in Subst(T0, "@", W("1.5")) /\ kind' = "float-id"
       \/ toks' \in Subst(T0, "=", Q("zero")) /\ kind' = "string-enum-value"
       \/ toks' \in Subst(T0, "=", W("2.5")) /\ kind' = "float-enum-value"
       \/ toks' \in Subst(T0, "|", W("scale")) /\ kind' = "unknown-param"
       \/ (\E i \in Positions(T0, "unit") : toks' = DeleteAt(T0, i + 2)) /\ kind' = "param-arity"
       \/ (\E i \in Positions(T0, "range") : toks' = DeleteAt(DeleteAt(T0, i + 3), i + 3)) /\ kind' = "param-arity"
       \/ (\E i \in Positions(T0, "enum") : toks' = SubSeq(T0, 1, i + 2) \o SubSeq(T0, i + 11, Len(T0))) /\ kind' = "empty-enum"
       \/ (\E i \in Positions(T0, "[") : i + 3 <= Len(T0) /\ T0[i + 2].s = "," /\ toks' = ReplaceAt(T0, i + 3, W("2.5"))) /\ kind' = "float-array-size"
       \/ toks' = ReplaceAt(T0, 3, Q("2")) /\ kind' = "bad-version"
       \/ toks' = ReplaceAt(T0, 3, W("3")) /\ kind' = "bad-version"
       \/ toks' = T0 /\ kind' = "unmutated"
       \/ toks' = T0 /\ kind' = "unmutated-xc"
       \/ \E k \in 0..(Len(T0) - 1) : toks' = TruncateToks(T0, k) /\ kind' = "truncate-xc"
Spec == Init /\ [][PickSeed \/ MutateStep]_vars
StyleOf(kd) == IF kd \in {"unmutated-xc", "truncate-xc"} THEN XStyle ELSE SeedStyle
Emit == stage = 2 => PrintT("OUT " \o ToJson([kind |-> kind, text |-> Render(toks, StyleOf(kind)) \o "\n"]))
=============================================================================
