------------------------------- MODULE Gen_Fcp -------------------------------
(* End-to-end scenarios: a schema with an enum, nested structs, an array, two   *)
(* CAN bindings on two buses, a service and a device; optionally one defect;    *)
(* kept in one file or split into modules (one and two levels) with optional     *)
(* errors injected into a module.  For each scenario and generator: what the     *)
(* generate command must do, and for generated DBC what it must describe.        *)
EXTENDS Fcp, ModGen
VARIABLES stage, cs
vars == <<stage, cs>>

I12 == [k |-> "i", w |-> 12]
U(w) == [k |-> "u", w |-> w]
FldU(n, id, t, u) == [name |-> n, id |-> id, type |-> t, params |-> <<[p |-> "unit", v |-> u]>>]
Bind(n, t, fs) == [kind |-> "impl", protocol |-> "can", type |-> t, name |-> n, items |-> fs]
BaseE(defect) ==
    << En("Ee"),
       St("Aa", <<Fld("x", 1, Ref("Ee")), FldU("y", 0, I12, "V")>>
                \o (IF defect = "dup-field" THEN <<Fld("x", 5, U(3))>> ELSE <<>>)),
       St("Bb", <<Fld("a", 2, Ref("Aa")), Fld("n", 0, U(5)), Fld("arr", 1, [k |-> "arr", t |-> U(3), n |-> 2])>>
                \o (IF defect = "oversize" THEN <<Fld("big", 9, U(40))>> ELSE <<>>)),
       Bind("Bb", "Bb", <<XF("id", [i |-> 20]), XF("device", [s |-> "ecu"])>>),
       Bind("Amsg", "Aa", <<XF("id", [i |-> IF defect = "dup-id" THEN 20 ELSE 21]), XF("bus", [s |-> "b2"])>>),
       [kind |-> "service", name |-> "Svc", id |-> 1, methods |-> <<[name |-> "m", id |-> 0, input |-> "Aa", output |-> "Bb"]>>],
       [kind |-> "device", name |-> "ecu", fields |-> <<[name |-> "services",
                   value |-> [a |-> <<[id |-> IF defect = "missing-service" THEN "Nope" ELSE "Svc"]>>]]>>] >>
Defects == {"none", "dup-id", "oversize", "dup-field", "missing-service"}
Gens == {"dbc", "can_c", "cpp", "nop"}

Layouts(b) == { [p \in {<<"main">>} |-> b] }
              \cup { Split1(b, S, <<"d1", "m2">>) : S \in {{1, 2}, {1}, {1, 2, 3, 4}, {6}, {5, 7}} }
              \cup { Split2(b, {1, 2, 3}, {1}, <<"m1">>, <<"inner", "deep">>) }

Init == stage = 0 /\ cs = <<>>
Next == \/ /\ stage = 0 /\ stage' = 1
           /\ \E d \in Defects : \E f \in Layouts(BaseE(d)) : cs' = [defect |-> d, files |-> f, inject |-> "none", where |-> <<>>]
        \/ /\ stage = 1 /\ stage' = 2
           /\ \/ cs' = cs
              \/ (cs.defect = "none" /\ \E p \in DOMAIN cs.files \ {<<"main">>} : \E how \in InjectHows :
                    cs' = Inject([base |-> 0] @@ cs, p, how))
Spec == Init /\ [][Next]_vars

R == LoadAll(cs.files)
S == SchemaOf(R.decls)
Single == [p \in {<<"main">>} |-> BaseE(cs.defect)]
(* the outcome never depends on how the declarations are spread over files *)
SplitTransparent == (stage = 2 /\ cs.inject = "none") => \A g \in Gens : Pipeline(cs.files, g).outcome = Pipeline(Single, g).outcome
InjectedIsFrontEndError == (stage = 2 /\ cs.inject # "none") => \A g \in Gens : Pipeline(cs.files, g).outcome = "front-end-error"
DefectFree == (stage = 2 /\ cs.inject = "none" /\ cs.defect = "none") => \A g \in Gens : Pipeline(cs.files, g).outcome = "generated"

ValA == [x |-> IntOfNat(2), y |-> [s |-> 1, m |-> <<1, 0, 1>>]]
ValB == [a |-> ValA, n |-> IntOfNat(17), arr |-> <<IntOfNat(7), IntOfNat(1)>>]
Generated(g) == Pipeline(cs.files, g).outcome = "generated"
BusList == SetToSeq(Buses(S))
FilePaths == SetToSeq(DOMAIN cs.files)
Emit == stage = 2 =>
    PrintT("OUT " \o ToJson(
        [files |-> [k \in 1..Len(FilePaths) |-> [path |-> FilePaths[k], text |-> Text(cs.files[FilePaths[k]], Style)]],
         defect |-> cs.defect, inject |-> cs.inject,
         outcomes |-> [g \in Gens |-> Pipeline(cs.files, g).outcome],
         dbc |-> IF Generated("dbc") THEN [k \in 1..Len(BusList) |-> [bus |-> BusList[k], messages |-> DbcOf(S)[BusList[k]]]] ELSE <<>>,
         frame |-> IF Generated("dbc") THEN <<[id |-> 20, bus |-> "default", bytes |-> PackBytes(S, FirstNamed(S.impls, "Bb"), ValB),
                                               decoded |-> LET lay == LayoutOf(S, FirstNamed(S.impls, "Bb"), TRUE)
                                                               lv == LeafVals(S, StructT("Bb"), ValB) IN
                                                           [i \in 1..Len(lay) |-> [name |-> lay[i].uname, value |-> lv[i]]]]>> ELSE <<>>,
         wire |-> IF R.ok /\ cs.defect \notin {"dup-field", "oversize"} THEN <<[root |-> "Bb", value |-> ValB, bytes |-> CanonBytes(S, "Bb", ValB)]>> ELSE <<>>,
         schema |-> IF R.ok THEN <<S>> ELSE <<>>]))
=============================================================================
