------------------------------- MODULE Modules -------------------------------
(***************************************************************************)
(* Loading a schema from a tree of files (big-step): declarations are      *)
(* processed in order; a struct's field types may only name user types     *)
(* declared before it in the same file or merged from a module imported    *)
(* before it (a module does not see its importer's types); `mod a.b.c`     *)
(* names the file dir(importer)/a/b/c.fcp and merges ALL FIVE kinds of     *)
(* declarations of that module at the import point.                        *)
(*                                                                         *)
(* files : function path -> sequence of decls, path = sequence of segments *)
(*         (<<"main">>, <<"d1", "m2">> ...); a decl [kind |-> "garbage"]    *)
(*         stands for a syntax error in that file.                          *)
(* Load(files, path) = [ok |-> TRUE, decls |-> resolved decls in load order]*)
(*                   | [ok |-> FALSE, why, file, (type, struct)]           *)
(***************************************************************************)
EXTENDS Syntax, FiniteSets

DirOf(path) == SubSeq(path, 1, Len(path) - 1)
ModTarget(importer, modpath) == DirOf(importer) \o modpath

RECURSIVE RefsIn(_)
(* user type names referenced by a type, outermost first *)
RefsIn(t) == CASE t.k = "ref" -> <<t.name>>
               [] t.k \in {"arr", "dyn", "opt"} -> RefsIn(t.t)
               [] OTHER -> <<>>

KindOf(declared, n) ==     \* structs win over enums, first declaration wins (FcpV2.get_struct / get_enum)
    IF \E i \in 1..Len(declared) : declared[i].name = n /\ declared[i].kind = "struct" THEN "struct"
    ELSE IF \E i \in 1..Len(declared) : declared[i].name = n /\ declared[i].kind = "enum" THEN "enum"
    ELSE "none"

RECURSIVE ResolveType(_, _)
ResolveType(t, declared) ==
    CASE t.k = "ref" -> [k |-> KindOf(declared, t.name), name |-> t.name]
      [] t.k = "arr" -> [k |-> "arr", t |-> ResolveType(t.t, declared), n |-> t.n]
      [] t.k = "dyn" -> [k |-> "dyn", t |-> ResolveType(t.t, declared)]
      [] t.k = "opt" -> [k |-> "opt", t |-> ResolveType(t.t, declared)]
      [] OTHER -> t

(* first field (in declaration order) with an unresolvable reference *)
BadField(d, declared) ==
    LET bad == {i \in 1..Len(d.fields) : \E r \in Range(RefsIn(d.fields[i].type)) : KindOf(declared, r) = "none"} IN
    IF bad = {} THEN 0 ELSE CHOOSE i \in bad : \A j \in bad : i <= j

TypeDecls(acc) == SelectSeq(acc, LAMBDA d : d.kind \in {"struct", "enum"})

Fail(why, file, ty, st) == [ok |-> FALSE, why |-> why, file |-> file, type |-> ty, struct |-> st, decls |-> <<>>]

RECURSIVE Load(_, _, _), Process(_, _, _, _, _)
Load(files, path, fuel) ==
    IF path \notin DOMAIN files THEN Fail("missing-file", path, "", "")
    ELSE Process(files, path, files[path], <<>>, fuel)

(* rest: declarations still to process; acc: resolved declarations so far (imported ones included) *)
Process(files, path, rest, acc, fuel) ==
    IF rest = <<>> THEN [ok |-> TRUE, decls |-> acc]
    ELSE LET d == rest[1] IN
      CASE d.kind = "garbage" -> Fail("syntax", path, "", "")
        [] d.kind = "invalid" -> Fail("invalid", path, "", "")
        [] d.kind = "struct" ->
             LET b == BadField(d, TypeDecls(acc)) IN
             IF b # 0
             THEN Fail("unresolved", path,
                       (CHOOSE r \in Range(RefsIn(d.fields[b].type)) : KindOf(TypeDecls(acc), r) = "none"), d.name)
             ELSE Process(files, path, Tail(rest),
                          Append(acc, [d EXCEPT !.fields = [i \in 1..Len(d.fields) |->
                                           [d.fields[i] EXCEPT !.type = ResolveType(d.fields[i].type, TypeDecls(acc))]]]),
                          fuel)
        [] d.kind = "mod" ->
             IF fuel = 0 THEN Fail("import-depth", path, "", "")
             ELSE LET r == Load(files, ModTarget(path, d.path), fuel - 1) IN
                  IF ~r.ok THEN r       \* the error keeps naming the file in which it arose
                  ELSE Process(files, path, Tail(rest), acc \o r.decls, fuel)
        [] OTHER -> Process(files, path, Tail(rest), Append(acc, d), fuel)

LoadAll(files) == Load(files, <<"main">>, 4)

(* -------------------------------------------------------------- properties *)
(* no dangling or mis-kinded references in an accepted schema (C08) *)
RECURSIVE Resolved(_)
Resolved(t) == CASE t.k = "ref" -> FALSE
                 [] t.k = "none" -> FALSE
                 [] t.k \in {"arr", "dyn", "opt"} -> Resolved(t.t)
                 [] OTHER -> TRUE
NoDangling(r) ==
    r.ok => \A i \in 1..Len(r.decls) :
              r.decls[i].kind = "struct" =>
                 \A f \in Range(r.decls[i].fields) :
                    /\ Resolved(f.type)
                    /\ LET RECURSIVE Leaf(_)
                           Leaf(t) == IF t.k \in {"arr", "dyn", "opt"} THEN Leaf(t.t) ELSE t
                           lt == Leaf(f.type) IN
                       lt.k \in {"struct", "enum"} =>
                          \E j \in 1..(i - 1) : r.decls[j].kind = lt.k /\ r.decls[j].name = lt.name

(* the declarations of one kind, as a bag *)
Bag(decls, kind) ==
    LET ds == SelectSeq(decls, LAMBDA d : d.kind = kind) IN
    [x \in Range(ds) |-> Cardinality({i \in 1..Len(ds) : ds[i] = x})]
SameDeclarations(a, b) == \A k \in {"struct", "enum", "impl", "service", "device"} : Bag(a, k) = Bag(b, k)
=============================================================================
