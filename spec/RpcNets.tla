------------------------------- MODULE RpcNets -------------------------------
(* The service sets and topologies the RpcProto checks are run on.            *)
EXTENDS Naturals, Sequences
M(name, id, input, output) == [name |-> name, id |-> id, input |-> input, output |-> output]
(* Control: two methods with distinct payload types; Other: input type = output type, and a method id that Control uses too *)
Control == [name |-> "Control", id |-> 1, methods |-> <<M("set", 0, "Req", "Rsp"), M("get", 1, "Ping", "Req")>>]
Other   == [name |-> "Other", id |-> 2, methods |-> <<M("ping", 0, "Ping", "Ping")>>]
(* ids at the top of the 8-bit range, declared in descending id order *)
Edge    == [name |-> "Edge", id |-> 254, methods |-> <<M("hi", 254, "Rsp", "Req"), M("lo", 3, "Req", "Req")>>]

P2P(disc, calls) ==
    [services |-> <<Control, Other>>, clients |-> <<[name |-> "c1", svc |-> "Control"]>>, brokers |-> <<[name |-> "b1", svc |-> "Control"]>>,
     links |-> << <<"c1", "b1">>, <<"b1", "c1">> >>, seeds |-> <<0, 5>>, maxcalls |-> calls, discipline |-> disc]
(* one broadcast medium: everybody receives what anybody else sends *)
BusNames == <<"c1", "c2", "b1", "b2">>
Bus(disc, calls) ==
    [services |-> <<Control, Other>>,
     clients |-> <<[name |-> "c1", svc |-> "Control"], [name |-> "c2", svc |-> "Other"]>>,
     brokers |-> <<[name |-> "b1", svc |-> "Control"], [name |-> "b2", svc |-> "Other"]>>,
     links |-> SelectSeq([k \in 1..16 |-> <<BusNames[((k - 1) \div 4) + 1], BusNames[((k - 1) % 4) + 1]>>], LAMBDA l : l[1] # l[2]),
     seeds |-> <<0, 5>>, maxcalls |-> calls, discipline |-> disc]
(* two clients of the SAME service on one medium *)
Twin(disc, calls) ==
    [services |-> <<Other, Edge>>,
     clients |-> <<[name |-> "c1", svc |-> "Other"], [name |-> "c2", svc |-> "Other"]>>,
     brokers |-> <<[name |-> "b1", svc |-> "Other"], [name |-> "b2", svc |-> "Edge"]>>,
     links |-> SelectSeq([k \in 1..16 |-> <<BusNames[((k - 1) \div 4) + 1], BusNames[((k - 1) % 4) + 1]>>], LAMBDA l : l[1] # l[2]),
     seeds |-> <<0, 5>>, maxcalls |-> calls, discipline |-> disc]
(* two clients of Control on one medium: a request seen by the other client carries a payload of ANOTHER type than the answer it waits for *)
TwinC(disc, calls) ==
    [services |-> <<Control, Other>>,
     clients |-> <<[name |-> "c1", svc |-> "Control"], [name |-> "c2", svc |-> "Control"]>>,
     brokers |-> <<[name |-> "b1", svc |-> "Control"], [name |-> "b2", svc |-> "Other"]>>,
     links |-> SelectSeq([k \in 1..16 |-> <<BusNames[((k - 1) \div 4) + 1], BusNames[((k - 1) % 4) + 1]>>], LAMBDA l : l[1] # l[2]),
     seeds |-> <<0, 5>>, maxcalls |-> calls, discipline |-> disc]
(* a client wired to two brokers of different services, each answering only its own *)
Fan(disc, calls) ==
    [services |-> <<Control, Edge>>,
     clients |-> <<[name |-> "c1", svc |-> "Edge"], [name |-> "c2", svc |-> "Control"]>>,
     brokers |-> <<[name |-> "b1", svc |-> "Control"], [name |-> "b2", svc |-> "Edge"]>>,
     links |-> << <<"c1", "b1">>, <<"c1", "b2">>, <<"c2", "b1">>, <<"c2", "b2">>, <<"b1", "c1">>, <<"b1", "c2">>, <<"b2", "c1">>, <<"b2", "c2">> >>,
     seeds |-> <<0, 5, 7>>, maxcalls |-> calls, discipline |-> disc]
=============================================================================
