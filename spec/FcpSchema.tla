------------------------------ MODULE FcpSchema ------------------------------
(***************************************************************************)
(* Abstract syntax of an FCP schema and the size/range functions every    *)
(* back end shares.                                                        *)
(*                                                                         *)
(* schema  == [structs, enums, impls, services, devices]  (sequences, in   *)
(*            declaration order - the order FcpV2 keeps them in)           *)
(* struct  == [name, fields]     field == [name, id, type (, unit, min,    *)
(*            max)]                                                        *)
(* enum    == [name, items]      item  == [name, value : Int record]       *)
(* impl    == [name, protocol, type, fields : seq of [name, value],        *)
(*            signals : seq of [name, fields : seq of [name, value]]]      *)
(* type    == [k |-> "u"|"i", w |-> 1..64] | [k |-> "f32"] | [k |-> "f64"] *)
(*          | [k |-> "str"] | [k |-> "arr", t, n] | [k |-> "dyn", t]       *)
(*          | [k |-> "opt", t] | [k |-> "struct", name] | [k |-> "enum",   *)
(*            name]                                                        *)
(* Values: see Bits (integers), floats = IEEE word as 32/64 bits, strings  *)
(* = Seq(0..127), arr/dyn = sequences, opt = <<>> | <<v>>, struct value =  *)
(* function field name -> value, enum value = the enumerator's number.     *)
(***************************************************************************)
EXTENDS Bits

Range(s) == {s[i] : i \in 1..Len(s)}

Max2(a, b) == IF a >= b THEN a ELSE b
RECURSIVE SeqMax(_)
SeqMax(s) == IF s = <<>> THEN 0 ELSE Max2(s[1], SeqMax(Tail(s)))
RECURSIVE SeqSum(_)
SeqSum(s) == IF s = <<>> THEN 0 ELSE s[1] + SeqSum(Tail(s))

(* first declaration with that name (FcpV2.get_struct / get_enum) *)
HasName(seq, n)  == \E i \in 1..Len(seq) : seq[i].name = n
FirstNamed(seq, n) ==
    seq[CHOOSE i \in 1..Len(seq) :
            seq[i].name = n /\ \A j \in 1..(i - 1) : seq[j].name # n]
GetStruct(sch, n) == FirstNamed(sch.structs, n)
GetEnum(sch, n)   == FirstNamed(sch.enums, n)

(* stable sort of a field sequence by field id: THE wire order *)
RECURSIVE InsertById(_, _)
InsertById(f, s) == IF s = <<>> THEN <<f>>
                    ELSE IF f.id < s[1].id THEN <<f>> \o s
                    ELSE <<s[1]>> \o InsertById(f, Tail(s))
RECURSIVE SortedById(_)
SortedById(fs) == IF fs = <<>> THEN <<>>
                  ELSE InsertById(fs[Len(fs)], SortedById(Take(fs, Len(fs) - 1)))

(* enum width: minimal number of bits of the largest enumerator, at least 1 *)
EnumMaxLen(e) == SeqMax([i \in 1..Len(e.items) |-> Len(e.items[i].value.m)])
EnumWidth(e)  == Max2(1, EnumMaxLen(e))

IsScalar(t) == t.k \in {"u", "i", "f32", "f64", "enum"}

WireWidth(sch, t) ==
    CASE t.k \in {"u", "i"} -> t.w
      [] t.k = "f32"  -> 32
      [] t.k = "f64"  -> 64
      [] t.k = "enum" -> EnumWidth(GetEnum(sch, t.name))

RECURSIVE FixedSize(_, _)
FixedSize(sch, t) ==
    CASE IsScalar(t)      -> TRUE
      [] t.k = "arr"      -> FixedSize(sch, t.t)
      [] t.k = "struct"   -> LET fs == GetStruct(sch, t.name).fields IN
                             \A i \in 1..Len(fs) : FixedSize(sch, fs[i].type)
      [] OTHER            -> FALSE

RECURSIVE BitsOf(_, _)
(* size in bits of a fixed-size type *)
BitsOf(sch, t) ==
    CASE IsScalar(t)    -> WireWidth(sch, t)
      [] t.k = "arr"    -> t.n * BitsOf(sch, t.t)
      [] t.k = "struct" -> LET fs == GetStruct(sch, t.name).fields IN
                           SeqSum([i \in 1..Len(fs) |-> BitsOf(sch, fs[i].type)])

RECURSIVE InRange(_, _, _)
InRange(sch, t, v) ==
    CASE t.k = "u"    -> IsInt(v) /\ InRangeU(t.w, v)
      [] t.k = "i"    -> IsInt(v) /\ InRangeS(t.w, v)
      [] t.k = "f32"  -> Len(v) = 32
      [] t.k = "f64"  -> Len(v) = 64
      [] t.k = "enum" -> \E it \in Range(GetEnum(sch, t.name).items) : it.value = v
      [] t.k = "str"  -> \A i \in 1..Len(v) : v[i] \in 0..127
      [] t.k = "arr"  -> Len(v) = t.n /\ \A i \in 1..Len(v) : InRange(sch, t.t, v[i])
      [] t.k = "dyn"  -> \A i \in 1..Len(v) : InRange(sch, t.t, v[i])
      [] t.k = "opt"  -> Len(v) <= 1 /\ \A i \in 1..Len(v) : InRange(sch, t.t, v[i])
      [] t.k = "struct" ->
            LET fs == GetStruct(sch, t.name).fields IN
            \A i \in 1..Len(fs) : InRange(sch, fs[i].type, v[fs[i].name])

StructT(n) == [k |-> "struct", name |-> n]
=============================================================================
