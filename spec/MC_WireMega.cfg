SPECIFICATION Spec
CONSTRAINT Emit
INVARIANT RoundTrip
INVARIANT DecodeEncode
INVARIANT UnknownIffNoBinding
INVARIANT UniqueKeys
