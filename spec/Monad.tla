------------------------------- MODULE Monad -------------------------------
(***************************************************************************)
(* The two sum types every component of fcp is written with: Result        *)
(* (src/fcp/result.py: Ok / Err) and Maybe (src/fcp/maybe.py: Some /        *)
(* Nothing), their combinators, the `attempt()` early exit and the `catch`  *)
(* decorator that turns it back into a value.  Values are abstracted to     *)
(* small naturals, errors to strings; functions passed to combinators come  *)
(* from a named catalogue that the conformance harness mirrors in Python.   *)
(* An evaluation yields an outcome: [k |-> "res", r], [k |-> "may", m],     *)
(* [k |-> "val", v] (a plain value) or [k |-> "raise", exc] (an exception   *)
(* leaves the expression).                                                  *)
(***************************************************************************)
EXTENDS Naturals, Sequences

Ok(v)   == [t |-> "ok", v |-> v]
Err(e)  == [t |-> "err", e |-> e]
Some(v) == [t |-> "some", v |-> v]
Nothing == [t |-> "nothing"]
Vals == 0..3
Errs == {"e1", "e2"}
Results == {Ok(v) : v \in Vals} \cup {Err(e) : e \in Errs}
Maybes  == {Some(v) : v \in Vals} \cup {Nothing}

(* ------------------------------------------------------ function catalogue *)
Fs == {"inc", "dbl", "zero"}                    \* T -> U
F(f, v) == CASE f = "inc" -> (v + 1) % 4 [] f = "dbl" -> (2 * v) % 4 [] f = "zero" -> 0
Ks == {"ok_inc", "fail_odd", "fail"}            \* T -> Result
K(k, v) == CASE k = "ok_inc" -> Ok((v + 1) % 4) [] k = "fail_odd" -> (IF v % 2 = 1 THEN Err("e1") ELSE Ok(v)) [] k = "fail" -> Err("e2")
Gs == {"swap", "same"}                          \* E -> F
G(g, e) == CASE g = "swap" -> (IF e = "e1" THEN "e2" ELSE "e1") [] g = "same" -> e
Rs == {"recover", "refail", "retry_e1"}         \* E -> Result
R(r, e) == CASE r = "recover" -> Ok(0) [] r = "refail" -> Err("e2") [] r = "retry_e1" -> (IF e = "e1" THEN Ok(1) ELSE Err(e))
Ms == {"some_inc", "none_odd", "none"}          \* T -> Maybe
M(m, v) == CASE m = "some_inc" -> Some((v + 1) % 4) [] m = "none_odd" -> (IF v % 2 = 1 THEN Nothing ELSE Some(v)) [] m = "none" -> Nothing
Os == {"some0", "none"}                         \* () -> Maybe
O(o) == IF o = "some0" THEN Some(0) ELSE Nothing

(* ------------------------------------------------------ Result combinators *)
RMap(r, f)     == IF r.t = "ok" THEN Ok(F(f, r.v)) ELSE r
RMapErr(r, g)  == IF r.t = "ok" THEN r ELSE Err(G(g, r.e))
RAndThen(r, k) == IF r.t = "ok" THEN K(k, r.v) ELSE r
ROrElse(r, h)  == IF r.t = "ok" THEN r ELSE R(h, r.e)
(* terminal operations: a plain value or an exception *)
Val(v)   == [k |-> "val", v |-> v]
Raise(x) == [k |-> "raise", exc |-> x]
RUnwrap(r)        == IF r.t = "ok" THEN Val(r.v) ELSE Raise("UnwrapError")
RUnwrapErr(r)     == IF r.t = "err" THEN Val(r.e) ELSE Raise("UnwrapError")
RUnwrapOr(r, d)   == IF r.t = "ok" THEN Val(r.v) ELSE Val(d)
RMapOr(r, d, f)   == IF r.t = "ok" THEN Val(F(f, r.v)) ELSE Val(d)
RIsOk(r)          == Val(IF r.t = "ok" THEN 1 ELSE 0)
ROkPart(r)        == IF r.t = "ok" THEN Val(r.v) ELSE Val("None")
RErrPart(r)       == IF r.t = "err" THEN Val(r.e) ELSE Val("None")
RIter(r)          == Val(IF r.t = "ok" THEN <<r.v>> ELSE <<>>)
RAttempt(r)       == IF r.t = "ok" THEN Val(r.v) ELSE Raise("ResultAttemptError")
(* a function decorated with @catch whose body is `return Ok(F(r.attempt()))` *)
RCaught(r, f)     == IF r.t = "ok" THEN Ok(F(f, r.v)) ELSE r
(* do-notation: do(Ok(x + y) for x in r1 for y in r2) *)
RDo(r1, r2)       == IF r1.t = "err" THEN r1 ELSE IF r2.t = "err" THEN r2 ELSE Ok((r1.v + r2.v) % 4)

(* ------------------------------------------------------- Maybe combinators *)
MMap(m, f)     == IF m.t = "some" THEN Some(F(f, m.v)) ELSE m
MAndThen(m, k) == IF m.t = "some" THEN M(k, m.v) ELSE m
MOrElse(m, o)  == IF m.t = "some" THEN m ELSE O(o)
MOkOr(m, e)    == IF m.t = "some" THEN Ok(m.v) ELSE Err(e)
MUnwrap(m)      == IF m.t = "some" THEN Val(m.v) ELSE Raise("UnwrapError")
MUnwrapOr(m, d) == IF m.t = "some" THEN Val(m.v) ELSE Val(d)
MMapOr(m, d, f) == IF m.t = "some" THEN Val(F(f, m.v)) ELSE Val(d)
MIsSome(m)      == Val(IF m.t = "some" THEN 1 ELSE 0)
MSomePart(m)    == IF m.t = "some" THEN Val(m.v) ELSE Val("None")
MAttempt(m)     == IF m.t = "some" THEN Val(m.v) ELSE Raise("MaybeAttemptError")
MCaught(m, f)   == IF m.t = "some" THEN Some(F(f, m.v)) ELSE Nothing
(* maybe(value): None -> Nothing *)
MOf(x)          == IF x = "None" THEN Nothing ELSE Some(x)

(* ---------------------------------------------------------------- the laws *)
LeftIdentity  == \A v \in Vals : \A k \in Ks : RAndThen(Ok(v), k) = K(k, v)
RightIdentity == \A r \in Results : (r.t = "ok" => RAndThen(r, "ok_inc") = Ok((r.v + 1) % 4)) /\ (r.t = "err" => \A k \in Ks : RAndThen(r, k) = r)
Associative   == \A r \in Results : \A k1, k2 \in Ks :
                    RAndThen(RAndThen(r, k1), k2) = (IF r.t = "ok" THEN RAndThen(K(k1, r.v), k2) ELSE r)
MapCompose    == \A r \in Results : \A f1, f2 \in Fs : RMap(RMap(r, f1), f2) = (IF r.t = "ok" THEN Ok(F(f2, F(f1, r.v))) ELSE r)
MapLeavesErr  == \A e \in Errs : \A f \in Fs : RMap(Err(e), f) = Err(e)
MapErrLeavesOk == \A v \in Vals : \A g \in Gs : RMapErr(Ok(v), g) = Ok(v)
OrElseDual    == \A r \in Results : \A h \in Rs : (r.t = "ok" => ROrElse(r, h) = r) /\ (r.t = "err" => ROrElse(r, h) = R(h, r.e))
CatchIsAndThen == \A r \in Results : \A f \in Fs : RCaught(r, f) = RMap(r, f)       \* attempt() + @catch is map
DoIsAndThen   == \A r1, r2 \in Results : RDo(r1, r2) = (IF r1.t = "ok" /\ r2.t = "ok" THEN Ok((r1.v + r2.v) % 4) ELSE IF r1.t = "err" THEN r1 ELSE r2)
MaybeLaws     == /\ \A v \in Vals : \A k \in Ms : MAndThen(Some(v), k) = M(k, v)
                 /\ \A k \in Ms : MAndThen(Nothing, k) = Nothing
                 /\ \A m \in Maybes : \A e \in Errs : (MOkOr(m, e).t = "ok") <=> (m.t = "some")
Laws == LeftIdentity /\ RightIdentity /\ Associative /\ MapCompose /\ MapLeavesErr /\ MapErrLeavesOk /\ OrElseDual
        /\ CatchIsAndThen /\ DoIsAndThen /\ MaybeLaws
=============================================================================
