SPECIFICATION Spec
INVARIANT TypeOK
INVARIANT OneWaiter
INVARIANT Correct
