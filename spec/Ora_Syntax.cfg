SPECIFICATION TSpec
CONSTRAINT Judge
