SPECIFICATION Spec
INVARIANT LawsHold
CONSTRAINT Emit
