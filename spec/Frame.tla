-------------------------------- MODULE Frame --------------------------------
(***************************************************************************)
(* Packing a message value into a CAN frame according to the packed        *)
(* layout, and back.  One frame format for the DBC and the generated C.    *)
(*   little-endian leaf: bit i of the value sits at frame bit start + i    *)
(*   big-endian leaf (byte aligned, 8/16/32/64 bits): the same range with  *)
(*   its bytes in reverse order (most significant byte first)              *)
(* Frame bits are numbered byte*8 + bit, bit 0 = LSB of the byte.          *)
(***************************************************************************)
EXTENDS Layout, Wire

RECURSIVE LeafVals(_, _, _)
(* the values of the leaves of an (unrolled) layout, in layout order *)
LeafVals(sch, t, v) ==
    CASE t.k = "struct" ->
            LET fs == SortedById(GetStruct(sch, t.name).fields) IN
            Flat([i \in 1..Len(fs) |-> LeafVals(sch, fs[i].type, v[fs[i].name])])
      [] t.k = "arr" -> Flat([i \in 1..t.n |-> LeafVals(sch, t.t, v[i])])
      [] OTHER -> <<v>>

RECURSIVE RevBytes(_)
RevBytes(b) == IF Len(b) <= 8 THEN b ELSE RevBytes(Drop(b, 8)) \o Take(b, 8)

BeOk(l) == l.start % 8 = 0 /\ l.len \in {8, 16, 32, 64}
LeafBits(sch, l, v) ==
    LET b == Canon(sch, l.type, v) IN IF l.endian = "big" THEN RevBytes(b) ELSE b

Dlc(lay) == (LayoutBits(lay) + 7) \div 8

(* frame data as a bit sequence of 8*Dlc bits *)
PackBits(sch, impl, v) ==
    LET lay == LayoutOf(sch, impl, TRUE)
        lv  == LeafVals(sch, StructT(impl.type), v)
        n   == 8 * Dlc(lay) IN
    [p \in 1..n |->
        IF \E i \in 1..Len(lay) : p - 1 >= lay[i].start /\ p - 1 < lay[i].start + lay[i].len
        THEN LET i == CHOOSE i \in 1..Len(lay) : p - 1 >= lay[i].start /\ p - 1 < lay[i].start + lay[i].len IN
             LeafBits(sch, lay[i], lv[i])[p - lay[i].start]
        ELSE 0]
PackBytes(sch, impl, v) == Bytes(PackBits(sch, impl, v))

(* reading one leaf back out of frame bits *)
UnpackLeaf(sch, l, fb) ==
    LET raw == SubSeq(fb, l.start + 1, l.start + l.len)
        b   == IF l.endian = "big" THEN RevBytes(raw) ELSE raw IN
    Parse(sch, l.type, b).v
UnpackLeaves(sch, impl, fb) ==
    LET lay == LayoutOf(sch, impl, TRUE) IN
    [i \in 1..Len(lay) |-> UnpackLeaf(sch, lay[i], fb)]
=============================================================================
