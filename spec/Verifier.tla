------------------------------ MODULE Verifier ------------------------------
(***************************************************************************)
(* Well-formedness of a schema tree, twice:                                *)
(*  - declaratively: WellFormed(s, cs), the conjunction of the rules for   *)
(*    check set cs in {"general", "dbc", "can_c"};                         *)
(*  - operationally: the rules as (category, name) checks over nodes, as   *)
(*    Verifier.verify runs them (VerifierM steps through categories,       *)
(*    checks and nodes; the first failing check decides).                  *)
(***************************************************************************)
EXTENDS CFrame, FiniteSets

DefaultImpl(st) == [name |-> st.name, protocol |-> "default", type |-> st.name, fields |-> <<>>, signals |-> <<>>]
(* the tree the front end builds has one default binding per struct *)
AllImpls(s) == [i \in 1..Len(s.structs) |-> DefaultImpl(s.structs[i])] \o s.impls

Count(seq, P(_)) == Cardinality({i \in 1..Len(seq) : P(seq[i])})
TypeNames(s) == [i \in 1..Len(s.structs) |-> s.structs[i].name] \o [i \in 1..Len(s.enums) |-> s.enums[i].name]

(* ------------------------------------------------------- rules, per node *)
UniqueTypeName(s, n)   == Count(TypeNames(s), LAMBDA x : x = n) <= 1
UniqueImpl(s, im)      == Count(AllImpls(s), LAMBDA x : x.name = im.name /\ x.protocol = im.protocol) <= 1
UniqueFieldName(st, f) == Count(st.fields, LAMBDA x : x.name = f.name) <= 1
HasField(st)           == Len(st.fields) > 0
UniqueItemNames(e)     == \A it \in Range(e.items) : Count(e.items, LAMBDA x : x.name = it.name) <= 1
UniqueItemValues(e)    == \A it \in Range(e.items) : Count(e.items, LAMBDA x : x.value = it.value) <= 1
DevServices(d)         == IF Has(d.fields, "services")
                          THEN LET a == LookupField(d.fields, "services", <<>>).a IN [i \in 1..Len(a) |-> LitStr(a[i])]
                          ELSE <<>>
ServicesExist(s)       == \A d \in Range(s.devices) : \A sv \in Range(DevServices(d)) : HasName(s.services, sv)
(* plug-in rules *)
ValidType(s, im)       == HasName(s.structs, im.type)
IsCanWithId(im)        == im.protocol = "can" /\ Has(im.fields, "id")
UniqueCanId(s, im)     == IsCanWithId(im) =>
                             Count(AllImpls(s), LAMBDA x : IsCanWithId(x) /\ IdOf(x) = IdOf(im)) <= 1
FitsFrame(s, im)       == (im.protocol = "can" /\ HasName(s.structs, im.type)) =>
                             (FixedSize(s, StructT(im.type)) /\ BitsOf(s, StructT(im.type)) <= 64)

(* ------------------------------------------------------------ declarative *)
GeneralWF(s) ==
    /\ \A n \in Range(TypeNames(s)) : UniqueTypeName(s, n)
    /\ \A im \in Range(AllImpls(s)) : UniqueImpl(s, im)
    /\ \A st \in Range(s.structs) : HasField(st) /\ \A f \in Range(st.fields) : UniqueFieldName(st, f)
    /\ \A e \in Range(s.enums) : UniqueItemNames(e) /\ UniqueItemValues(e)
    /\ ServicesExist(s)
DbcWF(s)  == /\ \A im \in Range(AllImpls(s)) : ValidType(s, im)
             /\ \A im \in Range(AllImpls(s)) : UniqueCanId(s, im)
CanCWF(s) == /\ \A im \in Range(AllImpls(s)) : ValidType(s, im)
             /\ \A im \in Range(AllImpls(s)) : FitsFrame(s, im)
WellFormed(s, cs) ==
    CASE cs = "general" -> GeneralWF(s)
      [] cs = "dbc"     -> GeneralWF(s) /\ DbcWF(s)
      [] cs = "can_c"   -> GeneralWF(s) /\ CanCWF(s)

(* ------------------------------------------------------------ operational *)
Categories == <<"struct", "field", "enum", "impl", "signal_block", "type", "device", "uncategorized">>

Nodes(s, cat) ==
    CASE cat = "struct" -> s.structs
      [] cat = "enum"   -> s.enums
      [] cat = "impl"   -> AllImpls(s)
      [] cat = "field"  -> Flat([i \in 1..Len(s.structs) |->
                                  [j \in 1..Len(s.structs[i].fields) |-> [st |-> s.structs[i], f |-> s.structs[i].fields[j]]]])
      [] cat = "signal_block" -> Flat([i \in 1..Len(AllImpls(s)) |-> AllImpls(s)[i].signals])
      [] cat = "type"   -> s.structs \o s.enums
      [] cat = "device" -> s.devices
      [] OTHER -> <<>>

(* the registered checks of a category, in registration order *)
Checks(cs, cat) ==
    CASE cat = "type"   -> <<"duplicate_typenames">>
      [] cat = "impl"   -> <<"duplicate_impl">> \o
                           (IF cs = "dbc" THEN <<"impl_valid_type", "duplicate_can_ids">>
                            ELSE IF cs = "can_c" THEN <<"impl_valid_type", "impl_size">> ELSE <<>>)
      [] cat = "field"  -> <<"duplicate_struct_fields">>
      [] cat = "struct" -> <<"struct_contains_fields">>
      [] cat = "enum"   -> <<"enum_duplicate_names", "enum_duplicate_values">>
      [] cat = "device" -> <<"device_contains_services">>
      [] OTHER -> <<>>

Passes(s, check, node) ==
    CASE check = "duplicate_typenames"     -> UniqueTypeName(s, node.name)
      [] check = "duplicate_impl"          -> UniqueImpl(s, node)
      [] check = "duplicate_struct_fields" -> UniqueFieldName(node.st, node.f)
      [] check = "struct_contains_fields"  -> HasField(node)
      [] check = "enum_duplicate_names"    -> UniqueItemNames(node)
      [] check = "enum_duplicate_values"   -> UniqueItemValues(node)
      [] check = "device_contains_services" -> ServicesExist(s)
      [] check = "impl_valid_type"         -> ValidType(s, node)
      [] check = "duplicate_can_ids"       -> UniqueCanId(s, node)
      [] check = "impl_size"               -> FitsFrame(s, node)

(* names of the registered checks that fail on some node, in run order *)
FailSeq(s, cs) ==
    Flat([c \in 1..Len(Categories) |->
            SelectSeq(Checks(cs, Categories[c]),
                      LAMBDA k : \E n \in Range(Nodes(s, Categories[c])) : ~Passes(s, k, n))])

(* declaration permutation: same declarations, other order *)
Permuted(s, ps, pi) == [s EXCEPT !.structs = [i \in 1..Len(s.structs) |-> s.structs[ps[i]]],
                                 !.impls = [i \in 1..Len(s.impls) |-> s.impls[pi[i]]]]
=============================================================================
