-------------------------------- MODULE Gate --------------------------------
(***************************************************************************)
(* The generate command (GeneratorManager.generate / `fcp generate`):      *)
(*   Register -> Verify -> Err: Return(Err), nothing touched                *)
(*                       -> Ok : PluginGenerate -> WriteFile* -> Return(Ok) *)
(* fs: the output directory as a function path -> contents (contents are   *)
(* opaque tokens: the digest of the bytes).  `files` is what the plug-in    *)
(* returned in that very call.  A plug-in may refuse a verified schema      *)
(* (CAN message that does not fit a frame): PluginRefuse, nothing written.  *)
(***************************************************************************)
EXTENDS GateRules

VARIABLES gen, tree,       \* the scenario
          fs0, fs,         \* output directory before / now
          pc,              \* "start" | "verified" | "generated" | "returned"
          verdict,         \* "" | "Ok" | "Err"
          files,           \* sequence of [path, contents] returned by the plug-in
          written,         \* how many of them have been written
          ret              \* "" | "Ok" | "Err" | "Raised"
gvars == <<gen, tree, fs0, fs, pc, verdict, files, written, ret>>

GInit(g, t, dir) ==
    /\ gen = g /\ tree = t /\ fs0 = dir /\ fs = dir
    /\ pc = "start" /\ verdict = "" /\ files = <<>> /\ written = 0 /\ ret = ""

Verify ==
    /\ pc = "start"
    /\ verdict' = IF WellFormed(tree, CSetOf(gen)) THEN "Ok" ELSE "Err"
    /\ pc' = "verified"
    /\ UNCHANGED <<gen, tree, fs0, fs, files, written, ret>>
ReturnErr ==
    /\ pc = "verified" /\ verdict = "Err"
    /\ ret' = "Err" /\ pc' = "returned"
    /\ UNCHANGED <<gen, tree, fs0, fs, verdict, files, written>>
(* the plug-in returns a list of files; the C plug-in first clears old .c/.h files *)
PluginGenerate(fl, cleared) ==
    /\ pc = "verified" /\ verdict = "Ok" /\ PluginCan(tree, gen)
    /\ files' = fl /\ pc' = "generated"
    /\ fs' = [p \in DOMAIN fs \ cleared |-> fs[p]]
    /\ UNCHANGED <<gen, tree, fs0, verdict, written, ret>>
PluginRefuse ==
    /\ pc = "verified" /\ verdict = "Ok" /\ ~PluginCan(tree, gen)
    /\ ret' = "Raised" /\ pc' = "returned"
    /\ UNCHANGED <<gen, tree, fs0, fs, verdict, files, written>>
WriteFile ==
    /\ pc = "generated" /\ written < Len(files)
    /\ LET f == files[written + 1] IN
       fs' = [p \in DOMAIN fs \cup {f.path} |-> IF p = f.path THEN f.contents ELSE fs[p]]
    /\ written' = written + 1
    /\ UNCHANGED <<gen, tree, fs0, pc, verdict, files, ret>>
ReturnOk ==
    /\ pc = "generated" /\ written = Len(files)
    /\ ret' = "Ok" /\ pc' = "returned"
    /\ UNCHANGED <<gen, tree, fs0, fs, verdict, files, written>>

(* ----------------------------------------------------------- properties *)
RejectWritesNothing == ret \in {"Err", "Raised"} => Untouched(fs0, fs)
AcceptWritesExactly == ret = "Ok" => WroteExactly(fs0, fs, files)
OnlyAfterOk == [][fs' # fs => verdict = "Ok"]_gvars
ErrIffIllFormed == ret # "" => ((ret = "Err") <=> ~WellFormed(tree, CSetOf(gen)))
=============================================================================
