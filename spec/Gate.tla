-------------------------------- MODULE Gate --------------------------------
(***************************************************************************)
(* The generate command (GeneratorManager.generate / `fcp generate`):      *)
(*   Register -> Verify -> Err: Return(Err), nothing touched                *)
(*                       -> Ok : PluginGenerate -> WriteFile* -> Return(Ok) *)
(* fs: the output directory as a function path -> contents (contents are   *)
(* opaque tokens: the digest of the bytes).  `files` is what the plug-in    *)
(* returned in that very call.  A plug-in may refuse a verified schema      *)
(* (CAN message that does not fit a frame): PluginRefuse, nothing written.  *)
(***************************************************************************)
EXTENDS GateRules

VARIABLES registered,      \* plug-ins whose checks this manager's verifier holds (survives between calls)
          gen, tree,       \* the scenario of the call in progress
          fs0, fs,         \* output directory before / now
          pc,              \* "start" | "verified" | "generated" | "returned"
          verdict,         \* "" | "Ok" | "Err"
          files,           \* sequence of [path, contents] returned by the plug-in
          written,         \* how many of them have been written
          ret              \* "" | "Ok" | "Err" | "Raised"
gvars == <<registered, gen, tree, fs0, fs, pc, verdict, files, written, ret>>

GInit(g, t, dir) ==
    /\ registered = {}
    /\ gen = g /\ tree = t /\ fs0 = dir /\ fs = dir
    /\ pc = "start" /\ verdict = "" /\ files = <<>> /\ written = 0 /\ ret = ""

(* generator.register_checks(self.verifier): the verifier accumulates *)
Register ==
    /\ pc = "start"
    /\ registered' = registered \cup {gen}
    /\ pc' = "registered"
    /\ UNCHANGED <<gen, tree, fs0, fs, verdict, files, written, ret>>
Verify ==
    /\ pc = "registered"
    /\ verdict' = IF WellFormedAcc(tree, registered) THEN "Ok" ELSE "Err"
    /\ pc' = "verified"
    /\ UNCHANGED <<registered, gen, tree, fs0, fs, files, written, ret>>
(* the same manager is used again *)
NewCall(g, t, dir) ==
    /\ pc = "returned"
    /\ gen' = g /\ tree' = t /\ fs0' = dir /\ fs' = dir
    /\ pc' = "start" /\ verdict' = "" /\ files' = <<>> /\ written' = 0 /\ ret' = ""
    /\ UNCHANGED registered
ReturnErr ==
    /\ pc = "verified" /\ verdict = "Err"
    /\ ret' = "Err" /\ pc' = "returned"
    /\ UNCHANGED <<registered, gen, tree, fs0, fs, verdict, files, written>>
(* the plug-in returns a list of files; the C plug-in first clears old .c/.h files *)
PluginGenerate(fl, cleared) ==
    /\ pc = "verified" /\ verdict = "Ok" /\ PluginCan(tree, gen)
    /\ files' = fl /\ pc' = "generated"
    /\ fs' = [p \in DOMAIN fs \ cleared |-> fs[p]]
    /\ UNCHANGED <<registered, gen, tree, fs0, verdict, written, ret>>
PluginRefuse ==
    /\ pc = "verified" /\ verdict = "Ok" /\ ~PluginCan(tree, gen)
    /\ ret' = "Raised" /\ pc' = "returned"
    /\ UNCHANGED <<registered, gen, tree, fs0, fs, verdict, files, written>>
WriteFile ==
    /\ pc = "generated" /\ written < Len(files)
    /\ LET f == files[written + 1] IN
       fs' = [p \in DOMAIN fs \cup {f.path} |-> IF p = f.path THEN f.contents ELSE fs[p]]
    /\ written' = written + 1
    /\ UNCHANGED <<registered, gen, tree, fs0, pc, verdict, files, ret>>
ReturnOk ==
    /\ pc = "generated" /\ written = Len(files)
    /\ ret' = "Ok" /\ pc' = "returned"
    /\ UNCHANGED <<registered, gen, tree, fs0, fs, verdict, files, written>>

(* ----------------------------------------------------------- properties *)
RejectWritesNothing == ret \in {"Err", "Raised"} => Untouched(fs0, fs)
AcceptWritesExactly == ret = "Ok" => WroteExactly(fs0, fs, files)
OnlyAfterOk == [][(fs' # fs /\ pc # "returned") => verdict = "Ok"]_gvars     \* (a new call starts from its own directory)
ErrIffIllFormed == ret # "" => ((ret = "Err") <=> ~WellFormedAcc(tree, registered))
(* a plug-in's own checks are always in force for its own call *)
OwnChecksInForce == pc \in {"registered", "verified", "generated", "returned"} => gen \in registered
=============================================================================
