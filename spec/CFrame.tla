------------------------------- MODULE CFrame -------------------------------
(***************************************************************************)
(* What the generated C encode / decode functions must return.             *)
(* Domain: the generator's advertised subset - flat structs of 1..64 bit   *)
(* integers, f32/f64 and enums, bound to CAN, at most 64 bits.             *)
(*   can_encode_msg_<m>(v) = [id = binding id, dlc = ceil(bits/8),          *)
(*                            data = layout packing of v, padded to 8]      *)
(*   can_decode_msg_<m>(frame) = the leaf values read back from the layout  *)
(***************************************************************************)
EXTENDS Dbc

InCSubset(sch, impl) ==
    /\ impl.protocol = "can" /\ Has(impl.fields, "id") /\ Fits(sch, impl)
    /\ \A f \in Range(GetStruct(sch, impl.type).fields) : IsScalar(f.type)
    /\ impl.signals = <<>>

CEncode(sch, impl, v) ==
    LET lay == LayoutOf(sch, impl, TRUE)
        b   == PackBytes(sch, impl, v) IN
    [id |-> IdOf(impl), dlc |-> Dlc(lay), data |-> b \o [i \in 1..(8 - Len(b)) |-> 0]]

(* field name -> value *)
CDecode(sch, impl, data) ==
    LET lay == LayoutOf(sch, impl, TRUE)
        fb  == BytesBits(data) IN
    [n \in {lay[i].uname : i \in 1..Len(lay)} |->
        UnpackLeaf(sch, lay[CHOOSE i \in 1..Len(lay) : lay[i].uname = n], fb)]
=============================================================================
