------------------------------ MODULE Gen_Reflect ------------------------------
(* the SyntaxGen descriptions (every node kind, with and without unit / range /   *)
(* signal blocks / services, type nesting) with the reflection record of each     *)
EXTENDS Reflect, SyntaxGen
VARIABLES stage, d
vars == <<stage, d>>
St0 == [gaps |-> "sp", seps |-> "all", seed |-> 0]
Init == stage = 0 /\ d = <<>>
Next == /\ stage = 0 /\ stage' = 1
        /\ \E t \in Types : \E pv \in 1..5 : \E iv \in 1..4 : \E tv \in 1..3 :
              /\ (tv = 1 \/ pv = 1 \/ t \in Leafs) /\ (iv \in {1, 3} \/ pv \in {1, 4})
              /\ d' = Decls(t, pv, iv, tv, 0)
Spec == Init /\ [][Next]_vars
R == Reflect(d)
(* the record lists every declared node *)
ListsEverything == stage = 1 =>
    /\ Len(R.structs) = Len(OfKind(d, "struct")) /\ Len(R.enums) = Len(OfKind(d, "enum"))
    /\ Len(R.impls) = Len(OfKind(d, "struct")) + Len(OfKind(d, "impl")) /\ Len(R.services) = Len(OfKind(d, "service"))
    /\ \A i \in 1..Len(R.structs) : Len(R.structs[i].fields) = Len(OfKind(d, "struct")[i].fields)
Emit == stage = 1 => PrintT("OUT " \o ToJson([decls |-> d, text |-> Text(d, St0), reflect |-> R]))
=============================================================================
