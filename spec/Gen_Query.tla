----------------------------- MODULE Gen_Query -----------------------------
(* Spec -> code for Query.tla: every small tree x every query with the outcome the specification gives, and the laws a caller  *)
(* of get_xpath / get_matching_impls_or_default can rely on as invariants.                                                       *)
(*   kind "xpath": structs A (1..2 fields), B (1 field), optionally a second struct called A, enum E; field names x / y; field   *)
(*                 types u8, A, B, E, a dangling struct Z, an array of A, a STRUCT reference that names the enum E;              *)
(*                 queries root in {A, B, Z, ""} x paths of 1..MaxLen names over {x, y, z, ""}                                   *)
(*   kind "impl" : struct lists <<A,B>>, <<B,A>>, <<A,B,A>>; 0..3 bindings over type {A, B, Z} x protocol {can, uart, default};  *)
(*                 protocols asked for: can, uart, default, lin                                                                  *)
EXTENDS Query, SequencesExt, IOUtils, TLC, Json
VARIABLES kind, sch
vars == <<kind, sch>>

MaxLen == IF IOEnv.QUERY_LEN = "3" THEN 3 ELSE 2
U8 == [k |-> "u", w |-> 8]
St(n) == [k |-> "struct", name |-> n]
FTypes == {U8, St("A"), St("B"), [k |-> "enum", name |-> "E"], St("Z"), [k |-> "arr", t |-> St("A"), n |-> 2], St("E")}
FNames == {"x", "y"}
Fld(n, i, t) == [name |-> n, id |-> i, type |-> t]
Fields1 == {<<Fld(n, 0, t)>> : n \in FNames, t \in FTypes}
Fields2 == {<<Fld(n1, 0, t1), Fld(n2, 1, t2)>> : n1 \in FNames, t1 \in FTypes, n2 \in FNames, t2 \in FTypes}
EnumE == [name |-> "E", items |-> <<[name |-> "e0", value |-> [s |-> 0, m |-> <<>>]]>>]
XSchema(fa, fb, dup) ==
    [structs |-> <<[name |-> "A", fields |-> fa], [name |-> "B", fields |-> fb]>> \o
                 (IF dup THEN <<[name |-> "A", fields |-> <<Fld("y", 0, U8)>>]>> ELSE <<>>),
     enums |-> <<EnumE>>, impls |-> <<>>, services |-> <<>>, devices |-> <<>>]
XSchemas == {XSchema(fa, fb, dup) : fa \in Fields1 \cup Fields2, fb \in Fields1, dup \in BOOLEAN}

PNames == {"x", "y", "z", ""}
Paths == {<<a>> : a \in PNames \ {"z"}} \cup {<<a, b>> : a \in PNames, b \in PNames \ {"z"}}
         \cup (IF MaxLen = 3 THEN {<<a, b, c>> : a \in PNames, b \in PNames, c \in PNames \ {"z"}} ELSE {})
Roots == {"A", "B", "Z", ""}
Queries == SetToSeq({[root |-> r, path |-> p, text |-> Text(r, p)] : r \in Roots, p \in Paths})

ITypes == {"A", "B", "Z"}
IProtos == {"can", "uart", "default"}
Bind(t, p) == [name |-> t, protocol |-> p, type |-> t, fields |-> <<>>, signals |-> <<>>]
Binds == {Bind(t, p) : t \in ITypes, p \in IProtos}
BindSeqs == {<<>>} \cup {<<a>> : a \in Binds} \cup {<<a, b>> : a \in Binds, b \in Binds} \cup {<<a, b, c>> : a \in Binds, b \in Binds, c \in Binds}
SOne(n) == [name |-> n, fields |-> <<Fld("x", 0, U8)>>]
StructLists == {<<SOne("A"), SOne("B")>>, <<SOne("B"), SOne("A")>>, <<SOne("A"), SOne("B"), SOne("A")>>}
ISchemas == {[structs |-> sl, enums |-> <<>>, impls |-> bs, services |-> <<>>, devices |-> <<>>] : sl \in StructLists, bs \in BindSeqs}
Asked == <<"can", "uart", "default", "lin">>

(* kind "cat": FcpV2.get(category) over trees with 0..2 declarations of every kind *)
UpTo2(a, b) == {<<>>, <<a>>, <<a, b>>}
Sig(n) == [name |-> n, fields |-> <<>>]
BindS(t, sg) == [name |-> t, protocol |-> "can", type |-> t, fields |-> <<>>, signals |-> sg]
CImpls == {<<>>} \cup {<<BindS("A", sa)>> : sa \in UpTo2(Sig("x"), Sig("y"))}
                \cup {<<BindS("A", sa), BindS("B", sb)>> : sa \in UpTo2(Sig("x"), Sig("y")), sb \in UpTo2(Sig("x"), Sig("y"))}
Enm(n) == [name |-> n, items |-> <<[name |-> "e0", value |-> [s |-> 0, m |-> <<>>]]>>]
Svc == [name |-> "S", id |-> 1, methods |-> <<[name |-> "m", id |-> 0, input |-> "A", output |-> "A"]>>]
Dev == [name |-> "D", fields |-> <<>>]
CSchemas == {[structs |-> st, enums |-> en, impls |-> im, services |-> sv, devices |-> dv] :
                st \in UpTo2([name |-> "A", fields |-> <<Fld("x", 0, U8), Fld("y", 1, U8)>>], SOne("B")),
                en \in UpTo2(Enm("E"), Enm("F")), im \in CImpls, sv \in {<<>>, <<Svc>>}, dv \in {<<>>, <<Dev>>}}
(* kind "visit": TypeVisitor.visit over structs with ids against declaration order / equal ids, wrappers nested to depth 2 *)
I16 == [k |-> "i", w |-> 16]
VBase == {U8, I16, [k |-> "f32"], [k |-> "f64"], [k |-> "str"], [k |-> "enum", name |-> "E"], St("B"), St("Z"), St("E")}
Wrap1(T) == {[k |-> "arr", t |-> t, n |-> 2] : t \in T} \cup {[k |-> "dyn", t |-> t] : t \in T} \cup {[k |-> "opt", t |-> t] : t \in T}
VTypes1 == VBase \cup Wrap1(VBase)
VTypes2 == VTypes1 \cup Wrap1(Wrap1({U8, St("B"), St("Z")}))
VIds == {<<0, 1>>, <<1, 0>>, <<3, 3>>}
BFields == {<<Fld("p", 1, U8), Fld("q", 0, I16)>>, <<Fld("p", 0, [k |-> "enum", name |-> "E"])>>, <<Fld("p", 0, St("Z"))>>}
VSchemas == {[structs |-> <<[name |-> "A", fields |-> <<Fld("x", ids[1], t1), Fld("y", ids[2], t2)>>], [name |-> "B", fields |-> fb]>>,
              enums |-> <<[name |-> "E", items |-> <<[name |-> "e0", value |-> [s |-> 0, m |-> <<>>]], [name |-> "e5", value |-> [s |-> 0, m |-> <<1, 0, 1>>]]>>]>>,
              impls |-> <<>>, services |-> <<>>, devices |-> <<>>] : ids \in VIds, t1 \in VTypes2, t2 \in VBase \cup Wrap1({U8}), fb \in BFields}
VAsked == <<St("A"), St("B"), St("Z"), St("E"), [k |-> "enum", name |-> "E"], [k |-> "arr", t |-> St("A"), n |-> 3], [k |-> "opt", t |-> St("A")]>>
CatsAsked == <<"struct", "enum", "impl", "field", "signal_block", "type", "service", "device", "fields", "">>

Init == \/ kind = "queries" /\ sch = <<>>
        \/ kind = "xpath" /\ sch \in XSchemas
        \/ kind = "impl" /\ sch \in ISchemas
        \/ kind = "cat" /\ sch \in CSchemas
        \/ kind = "visit" /\ sch \in VSchemas
Next == FALSE /\ UNCHANGED vars
Spec == Init /\ [][Next]_vars

XLaws == kind = "xpath" => \A q \in 1..Len(Queries) :
            /\ RealPathFound(sch, Queries[q].root, Queries[q].path)
            /\ FoundHasLastName(sch, Queries[q].root, Queries[q].path)
ILaws == kind = "impl" => \A a \in 1..Len(Asked) : MIODSound(sch, Asked[a])
CLaws == kind = "cat" => CategoriesPartition(sch)
VLaws == kind = "visit" => \A a \in 1..Len(VAsked) : VisitAgreesWithBitsOf(sch, VAsked[a]) /\ VisitRaisesOnlyOnBadReference(sch, VAsked[a])
(* refuted on purpose (MC_Query_refute.cfg): a found field need not lie on the path that was asked for *)
NoSkip == kind = "xpath" => \A q \in 1..Len(Queries) : FoundOnlyRealPaths(sch, Queries[q].root, Queries[q].path)

Code(r) == IF r.t = "ok" THEN <<r.s, r.i>> ELSE r.t
Emit ==
    CASE kind = "queries" -> PrintT("OUT " \o ToJson([kind |-> "queries", queries |-> Queries, asked |-> Asked, cats |-> CatsAsked]))
      [] kind = "xpath"   -> PrintT("OUT " \o ToJson([kind |-> "xpath", sch |-> sch,
                                out |-> [q \in 1..Len(Queries) |-> Code(GetXpath(sch, Queries[q].root, Queries[q].path))]]))
      [] kind = "impl"    -> PrintT("OUT " \o ToJson([kind |-> "impl", sch |-> sch,
                                miod |-> [a \in 1..Len(Asked) |-> MatchingImplsOrDefault(sch, Asked[a])],
                                mi   |-> [a \in 1..Len(Asked) |-> MatchingImpls(sch, Asked[a])],
                                one  |-> [a \in 1..Len(Asked) |-> [s \in 1..Len(sch.structs) |-> MatchingImpl(sch, sch.structs[s].name, Asked[a])]],
                                protocols |-> SetToSeq(Protocols(sch))]))
      [] kind = "visit"   -> PrintT("OUT " \o ToJson([kind |-> "visit", sch |-> sch, asked |-> VAsked,
                                terms |-> [a \in 1..Len(VAsked) |-> Visit(sch, VAsked[a], "r")]]))
      [] kind = "cat"     -> PrintT("OUT " \o ToJson([kind |-> "cat", sch |-> sch,
                                cats |-> [c \in 1..Len(CatsAsked) |-> GetCategory(sch, CatsAsked[c])]]))
=============================================================================
