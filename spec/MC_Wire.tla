------------------------------ MODULE MC_Wire ------------------------------
(* Exhaustive model checking of the wire machine over the bounded universe *)
(* of WireGen, and emission of every case with its canonical bytes.        *)
EXTENDS WireM, WireGen, IOUtils

Scope == IOEnv.WIRE_SCOPE
EmitOn == IOEnv.WIRE_EMIT = "1"

QuickWidths == {1, 2, 7, 8, 9, 15, 16, 17, 31, 32, 33, 63, 64}
ScopeSchemas ==
    CASE Scope = "quick"     -> QuickSchemas
      [] Scope = "alignq"    -> AlignSchemas(QuickWidths)
      [] Scope = "align"     -> AlignSchemas(1..64)
      [] Scope = "tiny"      -> {S \in Schemas1 : S.structs[2].fields[1].type.k \in {"u", "opt", "str"}}

MCInit == \E S \in ScopeSchemas : \E v \in Vals(S, St("Root"), 0) : WInit(S, "Root", v)
MCNext == WNext
MCSpec == MCInit /\ [][MCNext]_wvars

Emit == (EmitOn /\ phase = "sealed" /\ ~trunc)
            => PrintT("OUT " \o ToJson(CaseJson(sch, root, val)))
AllInRange == InRange(sch, St(root), val)
=============================================================================
