------------------------------- MODULE LayoutM -------------------------------
(***************************************************************************)
(* Small-step model of one PackedEncoder object.  bitstart and encoding    *)
(* belong to the object and survive between generate() calls - the model   *)
(* keeps them on purpose: the reset in GenerateBegin is the mechanism that *)
(* makes a layout independent of the calls made before.                    *)
(*   GenerateBegin  ~ PackedEncoder.generate (reset + root struct)         *)
(*   VisitStruct    ~ _generate_struct (children in ascending field id)    *)
(*   VisitArrayUnroll ~ _generate_array_type (derived fields name_i)       *)
(*   VisitLeaf      ~ _generate_signal (append Value, advance bitstart)    *)
(*   GenerateEnd    ~ return self.encoding                                 *)
(***************************************************************************)
EXTENDS Layout, Sequences

VARIABLES sch, unroll,        \* fixed per behaviour: schema, ctx.unroll_arrays
          bitstart, encoding, \* persistent state of the encoder object
          pc, work, cur,      \* the call in progress
          calls, rets         \* history: impls passed so far and lists returned

lvars == <<sch, unroll, bitstart, encoding, pc, work, cur, calls, rets>>

LInit(S, u) ==
    /\ sch = S /\ unroll = u
    /\ bitstart = 0 /\ encoding = <<>>
    /\ pc = "idle" /\ work = <<>> /\ cur = <<>>
    /\ calls = <<>> /\ rets = <<>>

GenerateBegin(impl) ==
    /\ pc = "idle"
    /\ pc' = "run" /\ cur' = impl
    /\ encoding' = <<>> /\ bitstart' = 0            \* the reset
    /\ work' = Children(sch, RootItem(impl), unroll, TRUE)
    /\ calls' = Append(calls, IF impl.protocol = "can" THEN impl.name ELSE impl.name \o "@" \o impl.protocol)   \* bindings of other protocols may share a name
    /\ UNCHANGED <<sch, unroll, rets>>

VisitStruct ==
    /\ pc = "run" /\ work # <<>> /\ work[1].t.k = "struct"
    /\ work' = Children(sch, work[1], unroll, FALSE) \o Tail(work)
    /\ UNCHANGED <<sch, unroll, bitstart, encoding, pc, cur, calls, rets>>

VisitArrayUnroll ==
    /\ pc = "run" /\ work # <<>> /\ work[1].t.k = "arr" /\ unroll
    /\ work' = Children(sch, work[1], unroll, FALSE) \o Tail(work)
    /\ UNCHANGED <<sch, unroll, bitstart, encoding, pc, cur, calls, rets>>

VisitLeaf ==
    /\ pc = "run" /\ work # <<>> /\ ~IsComposite(work[1], unroll) /\ Measurable(work[1].t)
    /\ LET lf == Leaf(sch, cur, work[1], bitstart) IN
       /\ encoding' = Append(encoding, lf)
       /\ bitstart' = bitstart + lf.len
    /\ work' = Tail(work)
    /\ UNCHANGED <<sch, unroll, pc, cur, calls, rets>>

(* the width of the next leaf cannot be computed: generate() raises and leaves the object as it is - leaves laid out so far
   stay in `encoding`, the cursor stays where it was.  A refused call is recorded as the empty list. *)
Refuse ==
    /\ pc = "run" /\ work # <<>> /\ ~IsComposite(work[1], unroll) /\ ~Measurable(work[1].t)
    /\ pc' = "idle"
    /\ rets' = Append(rets, <<>>)
    /\ UNCHANGED <<sch, unroll, bitstart, encoding, work, cur, calls>>

GenerateEnd ==
    /\ pc = "run" /\ work = <<>>
    /\ pc' = "idle"
    /\ rets' = Append(rets, encoding)
    /\ UNCHANGED <<sch, unroll, bitstart, encoding, work, cur, calls>>

LNext(Impls, maxCalls) ==
    \/ \E i \in Impls : Len(calls) < maxCalls /\ GenerateBegin(i)
    \/ VisitStruct \/ VisitArrayUnroll \/ VisitLeaf \/ Refuse \/ GenerateEnd

(* -------------------------------------------------------------- invariants *)
Answered == pc = "idle" /\ rets # <<>>
Last     == rets[Len(rets)]
Returned == Answered /\ Last # <<>>            \* the last call returned a layout (a layout is never empty)
(* a call is refused exactly when its binding cannot be laid out - whatever happened on this object before *)
RefusedIffUnlayable == Answered => ((Last = <<>>) <=> ~Layable(sch, cur, unroll))
(* the layout just returned equals the big-step layout of ITS binding, whatever was generated before *)
HistoryIndependent == Returned => Last = LayoutOf(sch, cur, unroll)
InvStartsAtZero    == Returned => StartsAtZero(Last)
InvTiles           == Returned => Tiles(Last)
InvUniqueNames     == Returned => UniqueNames(Last)
InvLenIsWireWidth  == Returned => LenIsWireWidth(sch, Last)
InvTotal           == Returned => TotalIsStructSize(sch, cur, Last)
(* options of a signal block sit on the leaves whose own name is the block's name, and nowhere else *)
InvOptionsOnOwnLeaf ==
    Returned => \A i \in 1..Len(Last) :
        /\ Last[i].ext = GetSignal(cur, Last[i].own)
        /\ Last[i].ext # <<>> => \E s \in Range(cur.signals) : s.name = Last[i].own /\ s.fields = Last[i].ext
(* while a call runs, the cursor is the end of what has been laid out so far *)
CursorIsEnd == pc = "run" => bitstart = LayoutBits(encoding)
=============================================================================
