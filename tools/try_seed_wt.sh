#!/bin/bash
# tools/try_seed_wt.sh <seed> <checks...> : development helper - the seeded change applied to a scratch worktree (FCP_REPO), /repo untouched.
# (the recorded trials use tools/try_seed.sh, which applies the change to /repo itself)
S=$1; shift
SRC=/tmp/seeds/$S; [ -d "$SRC" ] || SRC=/verif/seeded/$S
WT=/tmp/vt/dev-$S
git -C /repo worktree remove --force $WT 2>/dev/null; rm -rf $WT; mkdir -p /tmp/vt
git -C /repo worktree add -q --detach $WT HEAD || exit 2
( cd $WT && git apply $SRC/patch.diff ) || { echo "PATCH DOES NOT APPLY"; git -C /repo worktree remove --force $WT; exit 2; }
for c in "$@"; do ( cd /verif && FCP_REPO=$WT ./check $c --tier ${TIER:-quick} 2>&1 | grep -E "VIOLATION|MACHINERY|quick:|thorough:" | cut -c1-220 | tail -5 ); done
git -C /repo worktree remove --force $WT
