#!/bin/bash
# tools/try_seed_par.sh <seed> <checks...> : like try_seed.sh but entirely in a scratch worktree (FCP_REPO, VERIF_EVIDENCE_DIR),
# so that several seeded changes can be tried at the same time; /repo is never touched.  Output: /tmp/vt/<seed>.trial
S=$1; shift
SRC=/tmp/seeds/$S; [ -d "$SRC" ] || SRC=/verif/seeded/$S
CHECKS=${@:-${S:0:3}}
WT=/tmp/vt/par-$S
{
git -C /repo worktree remove --force $WT 2>/dev/null; rm -rf $WT; mkdir -p /tmp/vt /tmp/vt/evid-$S
git -C /repo worktree add -q --detach $WT HEAD || exit 2
( cd $WT && git apply $SRC/patch.diff ) || { echo "PATCH DOES NOT APPLY"; git -C /repo worktree remove --force $WT; exit 2; }
echo "--- baseline on patched tree"; /verif/tools/baseline.py $WT | tail -3
echo "--- demo on patched tree (must fail)"; ( cd /tmp && timeout 900 /venv/bin/python $SRC/demo.py $WT >/tmp/vt/$S.demo_patched.log 2>&1; echo "exit=$?" )
echo "--- demo on /repo (must pass)"; ( cd /tmp && timeout 900 /venv/bin/python $SRC/demo.py /repo >/tmp/vt/$S.demo_clean.log 2>&1; echo "exit=$?" )
for c in $CHECKS; do echo "--- check $c on patched worktree"; ( cd /verif && FCP_REPO=$WT VERIF_EVIDENCE_DIR=/tmp/vt/evid-$S ./check $c --tier ${TIER:-quick} 2>&1 | grep -E "VIOLATION|MACHINERY|KNOWN|quick:|thorough:|Traceback|Error" | cut -c1-260 | tail -6 ); done
git -C /repo worktree remove --force $WT; rm -rf /tmp/vt/evid-$S
echo "--- done"
} > /tmp/vt/$S.trial 2>&1
