#!/venv/bin/python
"""Regenerate MANIFEST.json from the table below (one source of truth)."""
import json, os
V = os.path.dirname(os.path.dirname(os.path.abspath(__file__)))
props = [json.loads(l)["id"] for l in open(os.path.join(V, "properties.jsonl"))]

TB = ("TLC 1.8 + CommunityModules Json; the TLA+ modules under /verif/spec; representation-only glue (FCP text printer, "
      "int<->sign/magnitude, float<->IEEE word via struct)")

CHECKS = {
 "C01": dict(level="model_checking", technique="TLA+ spec (Wire/WireM) model-checked by TLC; TLC-generated cases replayed into fcp.serde; recorded random executions validated by TLC (Trace_Wire)",
   text="MC_Wire: TLC exhaustively explores the small-step encoder/decoder machine over a bounded universe of schemas x boundary values (RoundTrip, CursorExact, SealedIsCanon, DoneIsParse invariants); every (schema, value) case TLC emits - every type constructor, every bit alignment 0..7, integer widths incl. 1..64 in the thorough tier - is replayed through the real encode/decode; seeded random schemas far outside the bounds are run and each recorded round trip is judged by TLC.",
   design="5 C01", note=TB + "; exhaustive only within the WireGen bounds, sampled beyond"),
 "C02": dict(level="model_checking", technique="TLA+ spec of the canonical wire format pinned to the project's cross-language vectors; TLC-emitted canonical bytes compared with fcp.serde in both directions; recorded calls validated by TLC",
   text="The Wire specification is first validated against tests/standardized/fcp_tests.json (exit 2 on disagreement). TLC emits the canonical bytes for every case of the MC universe; encode must produce them byte for byte and decode must recover the value FROM TLC's bytes (decoder tested independently of the encoder). Random encode/decode calls are recorded and judged by Trace_Wire.",
   design="5 C02", note=TB),
 "C16": dict(level="model_checking", technique="TLA+ decoder machine with Truncate action (TruncErr/WorkBound invariants, TLC); truncated and length-corrupted inputs derived from TLC's canonical bytes and count-prefix offsets, outcomes judged by TLC's Parse",
   text="TLC proves on the bounded model that every strict byte prefix drives the specified decoder to an error and that decoder work is bounded by input length; for TLC-emitted and random cases every byte prefix and every corrupted count prefix (2^32-1, 2^31, 2^16, n+1) is fed to fcp.serde.decode; TLC decides per input whether the specification's parser overruns, in which case decode must raise (bounded time).",
   design="5 C16", note=TB + "; wall-clock limit 5 s per call as the unbounded-work detector"),
 "C04": dict(level="model_checking", technique="TLA+ spec of the PackedEncoder object (LayoutM) model-checked over all call histories; TLC-emitted histories replayed into one real encoder object; recorded random histories validated by TLC (Trace_Layout)",
   text="MC_Layout: TLC explores every sequence of generate() calls (<=3 quick, <=4 thorough) on one encoder over a bounded universe of fixed-size schemas (enum widths 1,2,3,5,8, nested structs, arrays of scalars/structs/arrays, ids against declaration order, signal blocks) and checks HistoryIndependent, Tiles, StartsAtZero, UniqueNames, LenIsWireWidth, OptionsOnOwnLeaf in every state; every emitted history is replayed into a real PackedEncoder and compared leaf by leaf; random larger shapes with histories up to 12 calls are recorded and judged by Trace_Layout.",
   design="5 C04", note=TB),
}

def entry(pid, c):
    return {"property_id": pid, "quick_cmd": "./check %s --tier quick" % pid,
            "thorough_cmd": "./check %s --tier thorough" % pid,
            "evidence_file": "/verif/evidence/%s.json" % pid,
            "replay_cmd_template": "./check %s --replay {path}" % pid,
            "engine": "tlc", "technique": c["technique"],
            "level_claimed": {"category": c["level"], "text": c["text"], "design_ref": "DESIGN.md section " + c["design"]},
            "level_note": c["note"]}

m = {"version": 1,
     "setup_cmd": "./tools/setup.sh",
     "hooks": {"guard": "FCP_CORE_VERIF", "enable": "no hooks are needed: all observation points are public calls, generated files and drivers compiled by the checks; the guard name is reserved and guards nothing",
               "baseline_off_cmd": "cd /repo && /venv/bin/python -m pytest -q -p no:cacheprovider --timeout=900 --continue-on-collection-errors",
               "source_commits": [], "add_only": True},
     "engines": [{"name": "tlc", "path": "/verif/spec", "serves_properties": sorted(CHECKS),
                  "kind_free_text": "explicit TLA+ specification checked with TLC; conformance by replaying TLC-generated cases into the implementation and validating recorded executions with TLC"}],
     "checks": [entry(p, CHECKS[p]) for p in props if p in CHECKS],
     "notes": "see DESIGN.md; known_findings.json lists recorded defects and fix: commits",
     "not_applicable": [{"property_id": p, "reason": "check not built yet (work in progress, DESIGN.md section 11 gives the order)"}
                        for p in props if p not in CHECKS]}
json.dump(m, open(os.path.join(V, "MANIFEST.json"), "w"), indent=1)
print("checks:", [c["property_id"] for c in m["checks"]])
