#!/bin/bash
# offline setup: parse every specification module with SANY, create scratch dirs
set -e
cd "$(dirname "$0")/.."
mkdir -p .work .cache evidence/replays
cd spec
for f in *.tla; do
  java -cp /opt/veriftools/tla/tla2tools.jar:/opt/veriftools/tla/CommunityModules-deps.jar tla2sany.SANY "$f" > ../.work/sany.out 2>&1 || { cat ../.work/sany.out; exit 1; }
  if grep -q -E "Semantic errors|Parse Error|\*\*\* Errors" ../.work/sany.out; then cat ../.work/sany.out; exit 1; fi
done
echo "setup ok: $(ls *.tla | wc -l) modules parsed"
