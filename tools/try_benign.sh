#!/bin/bash
# tools/try_benign.sh <dir under /tmp/benign> <checks...> : a property-preserving change must raise no alarm
B=$1; shift
SRC=/tmp/benign/$B; [ -d "$SRC" ] || SRC=/verif/benign/$B
if [ -n "$(git -C /repo status --short)" ]; then echo "/repo not clean"; exit 2; fi
git -C /repo apply $SRC/patch.diff || { echo "PATCH DOES NOT APPLY"; exit 2; }
for c in "$@"; do echo "--- check $c on /repo + $B"; ( cd /verif && ./check $c --tier ${TIER:-quick} 2>&1 | grep -E "VIOLATION|MACHINERY|KNOWN|quick:|thorough:" | cut -c1-260 | tail -6 ); done
git -C /repo checkout -- . ; git -C /repo clean -fdq -- src plugins 2>/dev/null; git -C /repo status --short
