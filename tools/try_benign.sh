#!/bin/bash
# tools/try_benign.sh <dir under /tmp/benign or /verif/benign> <checks...> : a property-preserving change must raise no alarm.
# The change is applied to a scratch worktree of /repo (FCP_REPO points the checks at it), so /repo stays free.
B=$1; shift
SRC=/tmp/benign/$B; [ -d "$SRC" ] || SRC=/verif/benign/$B
WT=/tmp/vt/benign-$B
git -C /repo worktree remove --force $WT 2>/dev/null; rm -rf $WT; mkdir -p /tmp/vt
git -C /repo worktree add -q --detach $WT HEAD || exit 2
( cd $WT && git apply $SRC/patch.diff ) || { echo "PATCH DOES NOT APPLY"; git -C /repo worktree remove --force $WT; exit 2; }
for c in "$@"; do echo "--- check $c on HEAD + $B"; ( cd /verif && FCP_REPO=$WT ./check $c --tier ${TIER:-quick} 2>&1 | grep -E "VIOLATION|MACHINERY|KNOWN|quick:|thorough:" | cut -c1-260 | tail -6 ); done
git -C /repo worktree remove --force $WT
