#!/usr/bin/env python3
"""tools/benign_readme.py [log files of tools/try_benign.sh runs ...] : copy the changes of /tmp/benign into /verif/benign, merge the
outcomes found in the logs into benign/results.json and regenerate benign/README.md"""
import glob, json, os, re, shutil, sys
V = os.path.dirname(os.path.dirname(os.path.abspath(__file__)))
B = os.path.join(V, "benign")
os.makedirs(B, exist_ok=True)
rp = os.path.join(B, "results.json")
results = json.load(open(rp)) if os.path.exists(rp) else {}
for log in sys.argv[1:]:
    cur = None
    for line in open(log):
        m = re.match(r"##### (B\d+_\d)", line)
        if m:
            cur = m.group(1)
            continue
        if cur and "PATCH DOES NOT APPLY" in line:
            results.setdefault(cur, {})["(patch)"] = "does not apply"
        m = re.match(r"(C\d\d|RPC|E2E|MON|QRY) (?:quick|thorough): .*violations=(\d+)", line)
        if m and cur:
            results.setdefault(cur, {})[m.group(1)] = int(m.group(2))
json.dump(results, open(rp, "w"), indent=1, sort_keys=True)
rows = []
for d in sorted(glob.glob("/tmp/benign/B*_?")) + sorted(glob.glob(os.path.join(B, "B*_?"))):
    name = os.path.basename(d)
    dst = os.path.join(B, name)
    if d != dst:
        os.makedirs(dst, exist_ok=True)
        for f in ("patch.diff", "README.md", "patch.orig.diff"):
            if os.path.exists(os.path.join(d, f)):
                shutil.copy(os.path.join(d, f), os.path.join(dst, f))
for d in sorted(glob.glob(os.path.join(B, "B*_?")), key=lambda p: (int(re.search(r"B(\d+)_", p).group(1)), p)):
    name = os.path.basename(d)
    readme = open(os.path.join(d, "README.md")).read()
    title = next((l.strip("# ").strip() for l in readme.split("\n") if l.strip()), name)
    files = sorted(set(re.findall(r"^\+\+\+ b/(\S+)", open(os.path.join(d, "patch.diff")).read(), re.M)))
    r = results.get(name, {})
    checks = {k: v for k, v in r.items() if k != "(patch)"}
    if r.get("(patch)") and not checks:
        outcome = "not run: " + NOTES.get(name, "patch does not apply to the current HEAD") if False else "not run (see notes)"
    else:
        outcome = "no alarm" if checks and all(v == 0 for v in checks.values()) else "ALARM " + str({k: v for k, v in checks.items() if v})
    rows.append("| %s | %s | %s | %s | %s |" % (name, title[:150].replace("|", "/"), ", ".join(sorted({os.path.basename(f) for f in files})),
                                             " ".join(sorted(checks)), outcome))
open(os.path.join(B, "README.md"), "w").write("""# Property-preserving changes (false-alarm trials)

Each directory holds a change to joajfreitas/fcp-core written by an independent sub-agent that was given the texts of the
properties of one area and asked for realistic, non-trivial changes that keep every property true (`patch.diff`, the author's
`README.md` with the reasoning and the probes it ran). `tools/try_benign.sh <dir> <checks...>` applies the change to a scratch
worktree of /repo, points the checks at it and runs them in the quick tier. A check that alarms here would be a false alarm.
Outcomes are kept in `results.json` (last run of each check on each change).

| change | what (author's title) | files touched | checks run | outcome |
|---|---|---|---|---|
""" + "\n".join(rows) + """

Notes: B5_2's first C18 run reported `cpp.can.dynamic.encode:crashed`; that run was against the HEAD of the moment, which still
had the genuine stack overflow in `CanDynamicSchema::Encode` (DESIGN 12.3, fix 16490d6) - not an effect of B5_2; repeated on
the repaired HEAD: no alarm. B5_3 and seed C10d touch lines that later `fix:` commits changed and were re-based on them.
B6_2 (exact integer enum width instead of `floor(log2(max) + 1)`) is the same change as the later fix 6184672 and no longer
applies; it was not run.
""")
print("\n".join(rows))
