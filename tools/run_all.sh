#!/bin/bash
# tools/run_all.sh [quick|thorough] : run every registered check on the current tree (refreshes evidence/*.json)
cd "$(dirname "$0")/.."
T=${1:-quick}
if [ -n "$(git -C /repo status --short)" ]; then echo "/repo is not clean: refusing to write evidence"; exit 2; fi
for p in C01 C02 C03 C04 C05 C06 C07 C08 C09 C10 C11 C12 C13 C14 C15 C16 C17 C18 C19 C20; do
  ./check $p --tier $T 2>&1 | tail -3
done
./check E2E --tier $T 2>&1 | tail -1
./check RPC --tier $T 2>&1 | tail -1
./check MON --tier $T 2>&1 | tail -1
./check QRY --tier $T 2>&1 | tail -1
