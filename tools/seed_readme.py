#!/venv/bin/python
"""regenerate seeded/README.md from the meta.json files"""
import json, os
root = "/verif/seeded"
rows = []
for d in sorted(os.listdir(root)):
    m = os.path.join(root, d, "meta.json")
    if os.path.exists(m):
        j = json.load(open(m))
        rows.append((d, j["property"], j["needs_to_manifest"], j["ran"]))
with open(os.path.join(root, "README.md"), "w") as f:
    f.write("# Seeded breaking changes\n\nEach directory holds a change to joajfreitas/fcp-core written by an independent sub-agent that was given only the "
            "text of one property and a scratch worktree (nothing from /verif): `patch.diff`, the agent's demonstration `demo.py <tree>` (exits 0 "
            "on the clean tree, non-zero with the patch), its `README.md`, and `meta.json`. Every patch was re-verified in a fresh worktree "
            "(applies; the 167-test baseline still passes; demo fails with / passes without) with `tools/try_seed.sh <id>`, which then applies "
            "it to /repo, runs the checks and undoes it. None of these changes is ever committed to /repo.\n\n"
            "| seed | property | what it needs to manifest | detection |\n|---|---|---|---|\n")
    for d, p, n, r in rows:
        f.write("| %s | %s | %s | %s |\n" % (d, p, n.replace("|", "/"), r.replace("|", "/")))
print(len(rows), "seeds")
