#!/venv/bin/python
"""Run the repository's pinned baseline (guard off) and compare with BASELINE.json's stable_pass list."""
import json, subprocess, sys, tempfile, os
import xml.etree.ElementTree as ET
repo = sys.argv[1] if len(sys.argv) > 1 else "/repo"
base = json.load(open("/root/.vp/BASELINE.json"))
out = tempfile.mktemp(suffix=".xml", dir="/verif/.work" if os.path.isdir("/verif/.work") else None)
env = dict(os.environ); env.pop("FCP_CORE_VERIF", None)
if os.path.abspath(repo) != "/repo":
    env["PYTHONPATH"] = os.path.join(os.path.abspath(repo), "src")      # a scratch checkout: import ITS fcp, not /repo's
subprocess.run(["/venv/bin/python", "-m", "pytest", "-q", "-p", "no:cacheprovider", "--timeout=900",
                "--continue-on-collection-errors", "--junitxml=" + out], cwd=repo, env=env,
               stdout=subprocess.DEVNULL, stderr=subprocess.DEVNULL)
passed = set()
for tc in ET.parse(out).getroot().iter("testcase"):
    if not any(c.tag in ("failure", "error", "skipped") for c in tc):
        passed.add(tc.get("classname") + "::" + tc.get("name"))
os.remove(out)
missing = [t for t in base["stable_pass"] if t not in passed]
print("baseline: %d/%d stable tests pass" % (len(base["stable_pass"]) - len(missing), len(base["stable_pass"])))
for m in missing[:20]:
    print("  NOT PASSING:", m)
sys.exit(1 if missing else 0)
