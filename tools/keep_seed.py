#!/venv/bin/python
"""tools/keep_seed.py <ID> <name> "<needs>" "<ran / detected by>" : copy a verified seeded change into /verif/seeded/<name>/"""
import json, os, shutil, sys
pid, name, needs, ran = sys.argv[1:5]
src = "/tmp/seeds/" + pid
dst = "/verif/seeded/" + name
os.makedirs(dst, exist_ok=True)
for f in ("patch.diff", "demo.py", "README.md"):
    shutil.copy(os.path.join(src, f), os.path.join(dst, f))
json.dump({"property": name[:3], "seed": name, "origin": "independent sub-agent given only the property text and a scratch worktree",
           "needs_to_manifest": needs, "verified": "patch applies to a clean checkout; the 167-test baseline still passes with it; "
           "demo.py exits non-zero with the patch and 0 without", "ran": ran}, open(os.path.join(dst, "meta.json"), "w"), indent=1)
print("kept", dst)
