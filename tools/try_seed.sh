#!/bin/bash
# tools/try_seed.sh <ID> [checks...] : verify a seeded change from /tmp/seeds/<ID> (or /verif/seeded/<ID>) and run checks against it
# 1. fresh scratch worktree + patch: baseline must still pass, demo must fail there and pass on /repo
# 2. patch applied to /repo, the given checks (default: the property's own quick check) run, patch undone
ID=$1; shift
SRC=/tmp/seeds/$ID; [ -d "$SRC" ] || SRC=/verif/seeded/$ID
CHECKS=${@:-$ID}
WT=/tmp/vt/$ID
git -C /repo worktree remove --force $WT 2>/dev/null; rm -rf $WT; mkdir -p /tmp/vt
git -C /repo worktree add -q $WT HEAD || exit 2
( cd $WT && git apply $SRC/patch.diff ) || { echo "PATCH DOES NOT APPLY"; git -C /repo worktree remove --force $WT; exit 2; }
echo "--- baseline on patched tree"; /verif/tools/baseline.py $WT | tail -3
echo "--- demo on patched tree (must fail)"; ( cd /tmp && timeout 900 /venv/bin/python $SRC/demo.py $WT >/tmp/vt/$ID.demo_patched.log 2>&1; echo "exit=$?" )
echo "--- demo on /repo (must pass)"; ( cd /tmp && timeout 900 /venv/bin/python $SRC/demo.py /repo >/tmp/vt/$ID.demo_clean.log 2>&1; echo "exit=$?" )
git -C /repo worktree remove --force $WT
if [ -n "$(git -C /repo status --short)" ]; then echo "/repo not clean"; exit 2; fi
git -C /repo apply $SRC/patch.diff || exit 2
for c in $CHECKS; do echo "--- check $c on patched /repo"; ( cd /verif && ./check $c --tier ${TIER:-quick} 2>&1 | tail -4 ); done
git -C /repo checkout -- . ; git -C /repo status --short
