#!/venv/bin/python
"""tools/addfix.py <commit> "<props>" "<what>"  - record a fix: commit in known_findings.json"""
import json, sys
c, ps, what = sys.argv[1:4]
k = json.load(open('/verif/known_findings.json'))
for p in ps.split():
    k["findings"].append({"property": p, "status": "fixed", "commit": c, "what": what,
                          "line": "fixed: property=%s %s %s" % (p, c, what)})
json.dump(k, open('/verif/known_findings.json', 'w'), indent=1)
