"""C07: parsing is the inverse of printing (Syntax.tla: printer + TreeOf)."""
import json
import os
import random

from . import core, tlc, glue

glue.setup_repo_path()


def norm_actual(x):
    """FcpV2.to_dict() -> comparable JSON: floats as {"f": repr}, big ints as {"big": str}"""
    if isinstance(x, dict):
        return {k: norm_actual(v) for k, v in x.items()}
    if isinstance(x, (list, tuple)):
        return [norm_actual(v) for v in x]
    if isinstance(x, bool):
        return {"bool": x}
    if isinstance(x, float):
        return {"f": repr(x)}
    if isinstance(x, int):
        return x if abs(x) < 2 ** 31 else {"big": str(x)}
    return x


def norm_expected(x, key=None):
    """TreeOf JSON -> same vocabulary: float tokens evaluated with Python's float(); empty dicts arrive as []"""
    if isinstance(x, dict):
        if set(x.keys()) == {"f"} and isinstance(x["f"], str):
            return {"f": repr(float(x["f"]))}
        return {k: norm_expected(v, k) for k, v in x.items()}
    if isinstance(x, list):
        if key == "fields" and x == []:
            return {}
        return [norm_expected(v) for v in x]
    return x


def fix_fields(tree):
    """`fields` of structs are lists, `fields` of impls / signals / devices are dicts: [] -> {} only there"""
    t = norm_expected(tree)
    for st in t["structs"]:
        if st["fields"] == {}:
            st["fields"] = []
    return t


def swap_names(text, a, b, quoted=False):
    """alpha-rename: exchange two identifiers everywhere (whole words; in JSON text: whole quoted strings)"""
    import re
    if quoted:
        pa, pb = '"%s"' % a, '"%s"' % b
        return text.replace(pa, "\0").replace(pb, pa).replace("\0", pb)
    return re.sub(r"\b(%s|%s)\b" % (a, b), lambda m: b if m.group(1) == a else a, text)


STRING_BODIES = ['%s\\"', '\\"%s', 'a\\"%s\\\\', '%s\\\\', "%s'", '\\"', "'%s'", "''", "'", " %s ", "%s#", "//%s", "/*%s*/", "", "%s\t%s", "\t", "0", "None"]


def number_twin(text):
    """the same description with the decimal integer values of extension / signal fields zero-padded (016 is 16), or None"""
    import re
    pat = re.compile(r'(\b[a-z_]+[ \t]*:[ \t]*-?)([1-9][0-9]*)([ \t]*,)')
    out, n = pat.subn(lambda m: m.group(1) + "0" * (1 + len(m.group(2)) % 2) + m.group(2) + m.group(3), text)
    return out if n else None


def string_twin(text, exp, k):
    """(text', tree', literal) with one quoted literal of the text (not the version) replaced, or None"""
    import re
    lits = [m for m in re.findall(r'"([A-Za-z0-9_/ .]+)"', text) if m != "3"]
    bare = re.sub(r'"[^"]*"', '""', text)
    lits = [l for l in lits if not re.search(r"\b%s\b" % re.escape(l), bare)]
    if not lits:
        return None
    old = lits[k % len(lits)]
    body = STRING_BODIES[(k // 5) % len(STRING_BODIES)]
    new = body.replace("%s", old)
    dumped = json.dumps(exp)
    if json.dumps(old) not in dumped:
        return None
    return (text.replace('"%s"' % old, '"%s"' % new), json.loads(dumped.replace(json.dumps(old), json.dumps(new))), new)


_ALIVE = []      # the last results stay referenced, as in a long-lived tool


def parse_text(text):
    """-> ("ok", normalized dict) | ("err", repr) | ("raised", msg)"""
    from fcp.parser import get_fcp_from_string
    from fcp.error import Logger
    try:
        r = get_fcp_from_string(text, Logger({}))
        _ALIVE.append(r)
        del _ALIVE[:-40]
    except Exception as e:
        return "raised", "%s: %s" % (type(e).__name__, str(e)[:300])
    try:
        if r.is_err():
            return "err", repr(r.err())[:300]
        return "ok", norm_actual(r.unwrap().to_dict())
    except Exception as e:
        return "raised", "%s: %s" % (type(e).__name__, str(e)[:300])


def parse_file(text, workdir):
    from fcp.parser import get_fcp
    from fcp.error import Logger
    p = os.path.join(workdir, "main.fcp")
    with open(p, "w") as f:
        f.write(text)
    try:
        r = get_fcp(p, Logger({}))
        if r.is_err():
            return "err", repr(r.err())[:300]
        return "ok", norm_actual(r.unwrap().to_dict())
    except Exception as e:
        return "raised", "%s: %s" % (type(e).__name__, str(e)[:300])


def first_diff(a, b, path=""):
    if type(a) != type(b):
        return path or "/", a, b
    if isinstance(a, dict):
        for k in sorted(set(a) | set(b)):
            if k not in a or k not in b:
                return path + "/" + k, a.get(k, "<absent>"), b.get(k, "<absent>")
            d = first_diff(a[k], b[k], path + "/" + k)
            if d:
                return d
        return None
    if isinstance(a, list):
        if len(a) != len(b):
            return path + "/#len", len(a), len(b)
        for i, (x, y) in enumerate(zip(a, b)):
            d = first_diff(x, y, path + "/%d" % i)
            if d:
                return d
        return None
    return None if a == b else (path, a, b)


def diff_class(d):
    """which part of the tree differs: structs/fields/type..., for signatures"""
    if d is None:
        return "equal"
    parts = [p for p in d[0].split("/") if p and not p.isdigit()]
    return "/".join(parts[:3])


# ------------------------------------------------------------- random descriptions
IDENT = ["alpha", "beta", "gamma", "delta", "kappa", "lambda_1", "Mu", "Nu2", "x", "y_z", "T0", "Zed"]


def rand_value(rng, depth=0):
    r = rng.random()
    if r < 0.3:
        return {"i": rng.choice([0, 1, -1, 7, 2047, -300, 65535, 2 ** 31 - 1, -(2 ** 31) + 1])}
    if r < 0.45:
        return {"f": rng.choice(["2.5", "-1.5", "1e3", "0.125", "-0.0", "3.0", "1e-3", "12.75"])}
    if r < 0.65:
        return {"s": rng.choice(["", "ecu", "m/s", "two words", "a,b", "x{y}", "//not a comment", "/*nor this*/"])}
    if r < 0.8 or depth >= 2:
        return {"id": rng.choice(IDENT)}
    return {"a": [rand_value(rng, depth + 1) for _ in range(rng.randint(1, 3))]}


def rand_decls(rng):
    decls, structs, enums = [], [], []
    n = rng.randint(2, 7)
    svc = []
    for i in range(n):
        kind = rng.choice(["struct", "struct", "enum", "impl", "service", "device"])
        if kind == "enum" or (kind == "struct" and False):
            name = "En%d" % i
            k = rng.randint(1, 4)
            decls.append({"kind": "enum", "name": name,
                          "items": [{"name": "V%d_%d" % (i, j), "value": rng.choice([j, 10 * j + 1, 255 - j, -1 - j, -(2 ** 31) + 1 + j, 2 ** 31 - 1 - j])} for j in range(k)]})
            enums.append(name)
        elif kind == "struct" or not structs:
            name = "St%d" % i
            fields = []
            ids = rng.sample(range(0, 40), rng.randint(1, 4))
            for j, fid in enumerate(ids):
                fields.append({"name": ["fa", "fb", "fc", "fd"][j], "id": fid, "type": rand_type(rng, structs, enums, 3),
                               "params": rand_params(rng)})
            decls.append({"kind": "struct", "name": name, "fields": fields})
            structs.append(name)
        elif kind == "impl":
            tgt = rng.choice(structs)
            items = []
            used = set()
            for _ in range(rng.randint(1, 5)):
                if rng.random() < 0.7:
                    nm = rng.choice(["id", "device", "bus", "period", "endianess", "note", "list"])
                    if nm in used:
                        continue
                    used.add(nm)
                    items.append({"k": "field", "name": nm, "value": rand_value(rng)})
                else:
                    fl, u2 = [], set()
                    for _ in range(rng.randint(1, 3)):
                        nm = rng.choice(["mux_count", "mux_signal", "endianess", "scale"])
                        if nm not in u2:
                            u2.add(nm)
                            fl.append({"name": nm, "value": rand_value(rng)})
                    items.append({"k": "signal", "name": rng.choice(["fa", "fb", "fc", "fa_0"]), "fields": fl})
            decls.append({"kind": "impl", "protocol": rng.choice(["can", "uart", "json", "default"]), "type": tgt,
                          "name": tgt if rng.random() < 0.5 else "Bind%d" % i, "items": items})
        elif kind == "service":
            name = "Svc%d" % i
            decls.append({"kind": "service", "name": name, "id": rng.randint(0, 300),
                          "methods": [{"name": "m%d" % j, "id": j, "input": rng.choice(structs), "output": rng.choice(structs)}
                                      for j in range(rng.randint(1, 3))]})
            svc.append(name)
        else:
            fl = [{"name": "services", "value": {"a": [{"id": s} for s in svc]}}] if svc and rng.random() < 0.7 else []
            fl.append({"name": "n", "value": rand_value(rng)})
            decls.append({"kind": "device", "name": "dev%d" % i, "fields": fl})
    return decls


def rand_type(rng, structs, enums, depth):
    r = rng.random()
    if depth == 0 or r < 0.5:
        c = rng.random()
        if c < 0.3:
            return {"k": "u", "w": rng.choice([1, 8, 13, 32, 64, rng.randint(1, 64)])}
        if c < 0.5:
            return {"k": "i", "w": rng.choice([1, 8, 13, 32, 64, rng.randint(1, 64)])}
        if c < 0.6:
            return {"k": rng.choice(["f32", "f64", "str"])}
        if c < 0.8 and structs:
            return {"k": "struct", "name": rng.choice(structs)}
        if enums:
            return {"k": "enum", "name": rng.choice(enums)}
        return {"k": "str"}
    if r < 0.67:
        return {"k": "arr", "t": rand_type(rng, structs, enums, depth - 1), "n": rng.choice([1, 2, 3, 16, 255])}
    if r < 0.84:
        return {"k": "dyn", "t": rand_type(rng, structs, enums, depth - 1)}
    return {"k": "opt", "t": rand_type(rng, structs, enums, depth - 1)}


def rand_params(rng):
    r = rng.random()
    u = {"p": "unit", "v": rng.choice(["V", "m/s^2", "deg C", ""])}
    g = {"p": "range", "lo": rng.choice(["0", "-1.5", "-100", "1e-3", "-3.3"]), "hi": rng.choice(["1", "2.0", "1e3", "255", "0.1", "4294967295"])}
    if r < 0.4:
        return []
    if r < 0.6:
        return [u]
    if r < 0.75:
        return [g]
    return [u, g] if rng.random() < 0.5 else [g, u]


def rand_style(rng):
    return {"gaps": rng.choice(["min", "sp", "nl", "cm", "mix", "mix"]), "seps": rng.choice(["all", "none", "alt"]),
            "seed": rng.randint(0, 50)}


def run_c07(tier, seed):
    chk = core.Check("C07", tier, seed, "model_checking")
    rng = random.Random(seed)
    res = tlc.run("Gen_Syntax", workdir=chk.workdir, env={"SYN_SCOPE": tier}, timeout=3000, heap="8g")
    chk.add_tlc(res, "Gen_Syntax[%s]" % tier)
    cases = sorted(res.out, key=lambda o: json.dumps([o["decls"], o["style"]], sort_keys=True))
    chk.notes["texts_emitted"] = len(cases)
    limit = 2200 if tier == "quick" else 40000
    if len(cases) > limit:
        rng.shuffle(cases)
        cases = cases[:limit]
    seen_prod = set()
    for ci, c in enumerate(cases):
        exp = fix_fields(c["tree"])
        st, got = parse_text(c["text"])
        chk.count(1, traces=1)
        chk.distinct(json.dumps(c["decls"], sort_keys=True))
        for d in c["decls"]:
            seen_prod.add(d["kind"])
        if st != "ok":
            chk.violation("parser:%s-on-well-formed-text:%s" % (st, c["style"]["gaps"] + "/" + c["style"]["seps"]),
                          {"mode": "G", "text": c["text"], "style": c["style"], "observed": got})
            continue
        d = first_diff(exp, got)
        if d:
            chk.violation("parser:tree-differs:%s" % diff_class(d),
                          {"mode": "G", "text": c["text"], "style": c["style"], "at": d[0], "expected": d[1], "observed": d[2]})
        if ci % 6 == 0 and "Ea" in c["text"] and "Sa" in c["text"]:
            # the same description with the enum's and the struct's names exchanged, parsed in the same process: what an
            # identifier was in an earlier parse must not matter
            st3, got3 = parse_text(swap_names(c["text"], "Ea", "Sa"))
            exp3 = json.loads(swap_names(json.dumps(exp), "Ea", "Sa", quoted=True))
            chk.count(1, traces=1)
            if st3 != "ok":
                chk.violation("parser:%s-on-well-formed-text:renamed-twin" % st3, {"mode": "G", "text": swap_names(c["text"], "Ea", "Sa"), "observed": got3})
            else:
                d3 = first_diff(exp3, got3)
                if d3:
                    chk.violation("parser:tree-differs:renamed-twin:%s" % diff_class(d3),
                                  {"mode": "G", "text": swap_names(c["text"], "Ea", "Sa"), "at": d3[0], "expected": d3[1], "observed": d3[2]})
        if ci % 5 == 0:
            # the same description with one string literal given other CONTENTS (escaped quotes, backslashes, at its end and
            # inside): the tree holds the characters between the outer quotes, whatever they are
            tw = string_twin(c["text"], exp, ci)
            if tw:
                st4, got4 = parse_text(tw[0])
                chk.count(1, traces=1)
                if st4 != "ok":
                    chk.violation("parser:%s-on-well-formed-text:string-contents" % st4, {"mode": "G", "text": tw[0], "observed": got4})
                else:
                    d4 = first_diff(tw[1], got4)
                    if d4:
                        chk.violation("parser:tree-differs:string-contents:%s" % diff_class(d4),
                                      {"mode": "G", "text": tw[0], "literal": tw[2], "at": d4[0], "expected": d4[1], "observed": d4[2]})
                # and the same text read from a FILE: both entry points give the same tree
                st5, got5 = parse_file(tw[0], chk.workdir)
                chk.count(1, traces=1)
                if st5 != "ok" or first_diff(tw[1], got5):
                    chk.violation("parser.get_fcp:differs-from-string-entry:string-contents",
                                  {"mode": "G", "text": tw[0], "literal": tw[2], "status": st5,
                                   "observed": got5 if st5 != "ok" else first_diff(tw[1], got5)})
        if ci % 4 == 1:
            nt = number_twin(c["text"])
            if nt:
                st6, got6 = parse_text(nt)
                chk.count(1, traces=1)
                if st6 != "ok":
                    chk.violation("parser:%s-on-well-formed-text:zero-padded-integers" % st6, {"mode": "G", "text": nt, "observed": got6})
                else:
                    d6 = first_diff(exp, got6)
                    if d6:
                        chk.violation("parser:tree-differs:zero-padded-integers:%s" % diff_class(d6),
                                      {"mode": "G", "text": nt, "at": d6[0], "expected": d6[1], "observed": d6[2]})
        if ci % 10 == 0:
            st2, got2 = parse_file(c["text"], chk.workdir)
            chk.count(1, traces=1)
            if st2 != "ok" or first_diff(exp, got2):
                chk.violation("parser.get_fcp:differs-from-string-entry", {"mode": "G", "text": c["text"], "status": st2,
                                                                         "observed": got2 if st2 != "ok" else first_diff(exp, got2)})
        chk.sample({"text": c["text"], "style": c["style"], "tree": exp}, cap=2)
    chk.notes["productions_printed"] = sorted(seen_prod)
    # (T) random descriptions x random styles: TLC renders text and tree, the front end must agree
    n = 400 if tier == "quick" else 8000
    reqs = []
    for i in range(n):
        decls = rand_decls(rng)
        reqs.append({"id": "r%d" % i, "decls": decls, "style": rand_style(rng)})
    path = os.path.join(chk.workdir, "syntax-reqs.ndjson")
    with open(path, "w") as f:
        for r in reqs:
            f.write(json.dumps(r) + "\n")
    ora = tlc.run("Ora_Syntax", workdir=chk.workdir, env={"TRACE_FILE": path}, timeout=3000, heap="6g")
    chk.add_tlc(ora, "Ora_Syntax[%d descriptions]" % n)
    ans = {v["id"]: v for v in ora.verdicts}
    for r in reqs:
        if r["id"] not in ans:
            raise core.Machinery("no answer for %s" % r["id"])
        a = ans[r["id"]]
        if a["balanced"] != 1:
            raise core.Machinery("printer produced unbalanced text for %s" % r["id"])
        exp = fix_fields(a["tree"])
        st, got = parse_text(a["text"])
        chk.count(1, traces=1)
        chk.distinct(json.dumps(r["decls"], sort_keys=True))
        if st != "ok":
            chk.violation("parser:%s-on-well-formed-text:%s" % (st, r["style"]["gaps"] + "/" + r["style"]["seps"]),
                          {"mode": "T", "text": a["text"], "style": r["style"], "observed": got})
            continue
        d = first_diff(exp, got)
        if d:
            chk.violation("parser:tree-differs:%s" % diff_class(d),
                          {"mode": "T", "text": a["text"], "style": r["style"], "at": d[0], "expected": d[1], "observed": d[2]})
    chk.sample({"random_text": ans[reqs[0]["id"]]["text"]})
    chk.assumptions += ["identifiers are valid FCP identifiers that do not begin with a builtin type token (u8x, i5...) and are not keywords",
                        "parameters are always printed with parentheses (without them a following parameter name parses as an argument)",
                        "the value of a float token is Python's float(token); extension-field names are unique within a block"]
    return chk.finish(
        "(G) every description of SyntaxGen (every production; types to depth 2, thorough 3; 5 parameter variants in both orders; every "
        "value form; bindings with/without `as`, signal blocks, services, devices; 2 declaration orders) printed by the TLA+ printer in "
        "%d formatting styles (minimal, blanks, newlines, comments, mixed; optional separators on/off/alternating), %d texts parsed by "
        "the real front end and compared with TreeOf; every 10th also through get_fcp(path); (T) %d random descriptions x random "
        "styles rendered by TLC (Ora_Syntax) and parsed; distinct = distinct description" % (len({json.dumps(c["style"], sort_keys=True) for c in cases}), len(cases), n))
