"""Subprocess body for C17: run one operation history against /repo and print, for every
generate operation, the set of files it returned (digest per file, stamp line masked)."""
import hashlib
import json
import os
import re
import sys

sys.path.insert(0, os.path.dirname(os.path.dirname(os.path.abspath(__file__))))
from harness import glue  # noqa: E402

glue.setup_repo_path()
_STAMP = re.compile(r"^// Generated using fcp .*$", re.M)


def out_of(results, outdir):
    files = {}
    for r in results:
        if not isinstance(r, dict):
            continue
        if r.get("type") == "file":
            p = os.path.relpath(os.path.abspath(str(r.get("path"))), os.path.abspath(outdir))
            c = _STAMP.sub("// Generated using fcp <stamp>", str(r.get("contents")))
            files[p] = hashlib.sha1(c.encode()).hexdigest()[:16]
        else:
            files["<print>"] = hashlib.sha1(str(r.get("contents")).encode()).hexdigest()[:16]
    return files


def main():
    job = json.load(open(sys.argv[1]))
    from fcp.parser import get_fcp, get_fcp_from_string
    from fcp.error import Logger
    import importlib
    trees = {}
    logger = Logger({})
    outdir = job["outdir"]
    for op in job["hist"]:
        if op["op"] == "parse":
            r = get_fcp(job["schemas"][op["s"]], logger)
            if r.is_ok():
                trees[op["s"]] = r.unwrap()
        elif op["op"] == "parsebad":
            try:
                get_fcp_from_string(job["bad"], logger)
            except Exception:
                pass
        else:
            s = op["s"]
            if op["mode"] == "reused" and s in trees:
                tree = trees[s]
            else:
                r = get_fcp(job["schemas"][s], Logger({}))
                if r.is_err():
                    print(json.dumps({"g": op["g"], "s": s, "mode": op["mode"], "files": {"<parse-error>": "x"}}))
                    continue
                tree = r.unwrap()
            try:
                gen = importlib.import_module("fcp_" + op["g"]).Generator()
                import contextlib, io
                # every generator of this process writes into ONE directory that is never cleaned: what ends up on disk for a
                # schema must not depend on what an earlier generation left there
                disk = os.path.join(outdir, "disk-%d" % os.getpid(), op["g"])
                with contextlib.redirect_stdout(io.StringIO()):
                    res = list(gen.generate(tree, {"output": disk, "templates": {}, "skels": {}}))
                files = out_of(res, disk)
                try:
                    from fcp.codegen import handle_result
                    with contextlib.redirect_stdout(io.StringIO()):
                        for r in res:
                            if isinstance(r, dict) and r.get("type") == "file":
                                handle_result(r)
                    for r in res:
                        if isinstance(r, dict) and r.get("type") == "file":
                            pth = os.path.abspath(str(r.get("path")))
                            with open(pth, "r", newline="", errors="replace") as fh:
                                onfile = _STAMP.sub("// Generated using fcp <stamp>", fh.read())
                            files["<disk>" + os.path.relpath(pth, os.path.abspath(disk))] = hashlib.sha1(onfile.encode()).hexdigest()[:16]
                except ImportError:
                    pass
            except Exception as e:
                files = {"<raised>": type(e).__name__}
            print(json.dumps({"g": op["g"], "s": s, "mode": op["mode"], "files": files}))
            # a tool that regenerates on every edit lets go of the previous tree before it parses the next one
            tree = r = res = gen = None
            import gc
            gc.collect()


if __name__ == "__main__":
    main()
