"""Check bookkeeping: violations, known findings, evidence, exit codes.

exit 0  the property held on everything explored (KNOWN-FINDING lines allowed)
exit 1  at least one `VIOLATION property=<id> replay=<path>` line
exit 2  the machinery failed (TLC error/timeout, canary accepted, spec disagrees with
        the project's own vectors, driver could not be built for unrelated reasons)
"""
import json
import os
import shutil
import sys
import time

VERIF = os.path.dirname(os.path.dirname(os.path.abspath(__file__)))
# VERIF_EVIDENCE_DIR: development runs against a scratch checkout keep their evidence away from the committed files
EVID = os.environ.get("VERIF_EVIDENCE_DIR") or os.path.join(VERIF, "evidence")
REPLAYS = os.path.join(EVID, "replays")
KNOWN = os.path.join(VERIF, "known_findings.json")
MAX_REPLAYS = 25


class Machinery(Exception):
    """raise for failures of the verification machinery itself (exit 2)"""


def load_known():
    if not os.path.exists(KNOWN):
        return []
    with open(KNOWN) as f:
        return json.load(f)["findings"]


class Check:
    def __init__(self, pid, tier, seed, level, ext=False):
        self.ext = ext          # extension checks (not one of the listed properties) keep their evidence under evidence/ext/
        self.pid = pid
        self.tier = tier
        self.seed = seed
        self.level = level
        self.t0 = time.time()
        self.workdir = os.path.join(VERIF, ".work", "%s-%s-%d" % (pid, tier, os.getpid()))
        shutil.rmtree(self.workdir, ignore_errors=True)
        # scratch directories of runs whose process is gone (killed, crashed) are removed; live runs are left alone
        wroot = os.path.join(VERIF, ".work")
        if os.path.isdir(wroot):
            for d in os.listdir(wroot):
                owner = d.rsplit("-", 1)[-1]
                if owner.isdigit() and not os.path.exists("/proc/" + owner):
                    shutil.rmtree(os.path.join(wroot, d), ignore_errors=True)
        os.makedirs(self.workdir)
        os.makedirs(REPLAYS, exist_ok=True)
        for f in os.listdir(REPLAYS):
            if f.startswith(pid + "-"):
                os.remove(os.path.join(REPLAYS, f))
        self.known = [k for k in load_known() if k["property"] == pid and k["status"] == "finding"]
        self.known_hits = {}
        self.violations = []      # (sig, detail)
        self.coverage = {"evaluations": 0, "distinct_nontrivial": 0, "states": 0, "transitions": 0,
                         "traces_validated_against_impl": 0, "samples": [], "exhaustive": False}
        self.assumptions = []
        self.notes = {}
        self.nontrivial = set()

    # ------------------------------------------------------------ accounting
    def add_tlc(self, res, name=None):
        self.coverage["states"] += res.states
        self.coverage["transitions"] += res.generated
        if name:
            self.notes.setdefault("tlc_runs", []).append(
                {"model": name, "states": res.states, "generated": res.generated,
                 "depth": res.depth, "wall_s": round(res.wall, 1),
                 "coverage": {k: list(v) for k, v in res.coverage.items()} or None})

    def count(self, n=1, traces=0):
        self.coverage["evaluations"] += n
        self.coverage["traces_validated_against_impl"] += traces

    def distinct(self, key):
        self.nontrivial.add(key)

    def sample(self, s, cap=4):
        if len(self.coverage["samples"]) < cap:
            self.coverage["samples"].append(s)

    # ------------------------------------------------------------ violations
    def violation(self, sig, detail):
        """sig: 'site:input-class:deviation' string used to match known findings."""
        for k in self.known:
            if k["sig"] == sig:
                self.known_hits.setdefault(sig, [0, k, detail])[0] += 1
                return "known"
        self.violations.append((sig, detail))
        return "violation"

    # ---------------------------------------------------------------- finish
    def finish(self, rule, extra=None):
        cov = self.coverage
        cov["distinct_nontrivial"] = len(self.nontrivial)
        cov["rule"] = rule
        if extra:
            cov.update(extra)
        cov.update({k: v for k, v in self.notes.items()})
        cov["known_findings_hit"] = {s: h[0] for s, h in self.known_hits.items()}
        for sig, (n, k, detail) in sorted(self.known_hits.items()):
            print("KNOWN-FINDING: property=%s %s [%s] (%d observations this run)"
                  % (self.pid, k["what"], sig, n))
        nviol = len(self.violations)
        seen = {}
        for sig, detail in self.violations:
            seen.setdefault(sig, []).append(detail)
        i = 0
        for sig, details in seen.items():
            if i >= MAX_REPLAYS:
                break
            path = os.path.join(REPLAYS, "%s-%d.json" % (self.pid, i))
            with open(path, "w") as f:
                json.dump({"property": self.pid, "sig": sig, "count": len(details),
                           "first": details[0], "more": details[1:4]}, f, indent=1, default=str)
            print("VIOLATION property=%s replay=%s  (%s, %d cases)" % (self.pid, path, sig, len(details)))
            i += 1
        ev = {"property_id": self.pid, "tier": self.tier, "seed": self.seed, "level": self.level,
              "coverage": cov, "assumptions": self.assumptions,
              "wall_s": round(time.time() - self.t0, 1), "violations": nviol}
        if not cov["samples"]:
            cov["samples"] = ["(no case produced)"]
        edir = os.path.join(EVID, "ext") if self.ext else EVID
        os.makedirs(edir, exist_ok=True)
        with open(os.path.join(edir, self.pid + ".json"), "w") as f:
            json.dump(ev, f, indent=1, default=str)
        shutil.rmtree(self.workdir, ignore_errors=True)
        print("%s %s: evaluations=%d distinct_nontrivial=%d states=%d traces=%d violations=%d known=%d wall=%.0fs"
              % (self.pid, self.tier, cov["evaluations"], cov["distinct_nontrivial"], cov["states"],
                 cov["traces_validated_against_impl"], nviol, len(self.known_hits), time.time() - self.t0))
        return 1 if nviol else 0

    def cleanup(self):
        shutil.rmtree(self.workdir, ignore_errors=True)


def main_wrapper(fn):
    """run a check function; map exceptions to exit 2"""
    from . import tlc
    try:
        rc = fn()
    except (Machinery, tlc.TlcError) as e:
        print("MACHINERY-FAILURE: %s" % (str(e)[:6000],))
        sys.exit(2)
    except Exception:
        # anything else that escapes a check is a failure of the machinery too (never exit code 1 without a VIOLATION line)
        import traceback
        print("MACHINERY-FAILURE: unexpected exception in the check\n%s" % traceback.format_exc()[-6000:])
        sys.exit(2)
    sys.exit(rc)
