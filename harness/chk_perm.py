"""C15: field ids, not declaration order, fix the wire order in every back end (MC_Perm)."""
import json
import os
import random
import shutil

from . import core, tlc, glue, pycodec, cdriver, cppdriver, dbcread
from .chk_layout import abs_for_text, run_history, exp_leaf, first_diff as layout_diff
from .chk_dbc import generate_dbc, sig_proj
from .chk_cpp import codec_lines, parse_enc, parse_dec


def run_c15(tier, seed):
    chk = core.Check("C15", tier, seed, "model_checking")
    rng = random.Random(seed)
    res = tlc.run("MC_Perm", workdir=chk.workdir, env={}, timeout=2400, heap="6g")
    chk.add_tlc(res, "MC_Perm")
    sch, structs, cases = None, {}, []
    for o in res.out:
        if o["kind"] == "schema":
            sch = o["schema"]
        elif o["kind"] == "struct":
            structs[o["struct"]] = o
        else:
            cases.append(o)
    meta = {s["name"]: m for s, m in zip(sch["structs"], sch["meta"])}
    sch = abs_for_text(glue.strip_gen({k: v for k, v in sch.items() if k != "meta"}))
    cases.sort(key=lambda c: json.dumps(c, sort_keys=True))
    if tier == "quick":
        # all twins, a third of the values
        cases = [c for i, c in enumerate(cases) if i % 3 == seed % 3]
    chk.notes["twin_structs"] = len(structs)
    chk.notes["bases"] = len({m["base"] for m in meta.values()})
    fcp, text = pycodec.parse_schema(sch)
    backends = {"python": 0, "layout": 0, "dbc": 0, "c": 0, "cpp-static": 0, "cpp-dynamic": 0}

    def viol(backend, name, what, detail):
        m = meta[name]
        chk.violation("%s:%s%s" % (backend, what, "" if m["twin"] == 1 else ":declaration-permuted"),
                      dict(detail, struct=glue.find(sch["structs"], name), base=m["base"], twin=m["twin"]))

    # ---- Python codec
    for c in cases:
        name, val, canon = c["struct"], c["value"], c["bytes"]
        chk.count(1, traces=1)
        chk.distinct(json.dumps([name, val], sort_keys=True))
        st, enc = pycodec.encode(fcp, sch, name, val)
        if st != "ok" or enc != canon:
            viol("python.encode", name, "bytes-differ" if st == "ok" else st, {"value": val, "canonical": canon, "observed": enc})
        st2, dec = pycodec.decode(fcp, sch, name, canon)
        if st2 != "ok" or dec != val:
            from .chk_wire import classify_diff
            dev = classify_diff(sch, name, val, dec) if st2 == "ok" else st2
            if dev.startswith("signed-minimum"):
                continue          # C01/C02's recorded finding, not a field-order matter
            viol("python.decode", name, dev, {"value": val, "canonical": canon, "observed": dec})
        backends["python"] += 1
    # ---- the twins of a base as successive VERSIONS of one struct: each in its own schema under one shared name, all parsed and
    # used one after the other in this one process.  Anything remembered per struct NAME from an earlier version (a field-order
    # memo, a size memo) shows here; the expectation of a renamed twin is the expectation of the twin.
    def refs(t, acc):
        if t["k"] in ("struct", "enum"):
            acc.add(t["name"])
        if t["k"] in ("arr", "dyn", "opt"):
            refs(t["t"], acc)

    def mini(name, shared):
        need, todo = set(), [name]
        while todo:
            n = todo.pop()
            if n in need:
                continue
            need.add(n)
            st_ = glue.find(sch["structs"], n) if any(x["name"] == n for x in sch["structs"]) else None
            if st_:
                acc = set()
                for f in st_["fields"]:
                    refs(f["type"], acc)
                todo += sorted(acc)
        m = {"structs": [json.loads(json.dumps(x)) for x in sch["structs"] if x["name"] in need],
             "enums": [x for x in sch["enums"] if x["name"] in need],
             "impls": [json.loads(json.dumps(x)) for x in sch["impls"] if x["type"] == name],
             "services": [], "devices": []}
        for x in m["structs"]:
            if x["name"] == name:
                x["name"] = shared
        for x in m["impls"]:
            x["type"] = shared
            if x.get("name") == name:
                x["name"] = shared
        return m

    versions = {}
    by_base = {}
    for c in cases:
        by_base.setdefault(meta[c["struct"]]["base"], {}).setdefault(c["struct"], []).append(c)
    for base, per in sorted(by_base.items()):
        order = sorted(per, key=lambda n: meta[n]["twin"])
        order = order + order[:1]          # and back to the first version
        for name in order:
            shared = "Ver%d" % base
            try:
                msch = mini(name, shared)
                mfcp, _ = pycodec.parse_schema(msch)
            except (RuntimeError, KeyError) as e:
                raise core.Machinery("renamed twin %s of base %s not accepted by the front end: %s" % (name, base, e))
            versions.setdefault(base, []).append((name, shared, msch, mfcp, per[name]))
            for c in per[name]:
                val, canon = c["value"], c["bytes"]
                chk.count(1, traces=1)
                st_, enc = pycodec.encode(mfcp, msch, shared, val)
                if st_ != "ok" or enc != canon:
                    viol("python.encode", name, ("bytes-differ" if st_ == "ok" else st_) + ":as-a-later-version-of-one-struct",
                         {"value": val, "canonical": canon, "observed": enc, "versions_before": order[:order.index(name)]})
                st2, dec = pycodec.decode(mfcp, msch, shared, canon)
                if st2 != "ok" or dec != val:
                    from .chk_wire import classify_diff
                    dev = classify_diff(msch, shared, val, dec) if st2 == "ok" else st2
                    if dev.startswith("signed-minimum"):
                        continue
                    viol("python.decode", name, dev + ":as-a-later-version-of-one-struct",
                         {"value": val, "canonical": canon, "observed": dec})
            if structs[name]["can"] and msch["impls"]:
                chk.count(1, traces=1)
                obs = run_history(mfcp, 1, [msch["impls"][0].get("name", shared)])[0]
                e = [(l["start"], l["len"]) for l in structs[name]["layout"]]
                g = [(l["start"], l["len"]) for l in obs["ret"]] if not obs["raised"] else None
                if g is None or sorted(e) != sorted(g):
                    viol("layout", name, "positions-differ:as-a-later-version-of-one-struct", {"expected": e, "observed": g, "error": obs.get("error")})
        backends["python-versions"] = backends.get("python-versions", 0) + 1
    # ---- packed layout and DBC
    out = os.path.join(chk.workdir, "out")
    st, files = generate_dbc(fcp, out)
    dbc_msgs = {}
    if st == "ok":
        for f in files:
            for m in dbcread.read(f["contents"]):
                dbc_msgs[m["name"]] = m
    for name, o in sorted(structs.items()):
        if not o["can"]:
            continue
        chk.count(2, traces=2)
        obs = run_history(fcp, 1, [name])[0]
        e = [exp_leaf(l) for l in o["layout"]]
        if obs["raised"]:
            viol("layout", name, "raised", {"error": obs.get("error")})
        else:
            what, idx = layout_diff(e, obs["ret"])
            if what != "ok":
                viol("layout", name, what, {"expected": e, "observed": obs["ret"]})
        backends["layout"] += 1
        # describe.py is a third consumer of the field-id order: its leaf list must be the layout's leaves
        try:
            from fcp.describe import DescribeVisitor, flatten
            from fcp.specs.type import StructType
            xs = flatten(DescribeVisitor(fcp).visit(StructType(name)))
            got_d = [[x[0], x[2]] for x in xs]
            exp_d = [[l["own"], l["len"]] for l in o["layout"]]
            chk.count(1, traces=1)
            if got_d != exp_d:
                viol("describe", name, "leaf-list-differs", {"expected": exp_d, "observed": got_d})
            backends["describe"] = backends.get("describe", 0) + 1
        except ImportError:
            pass
        exp = o["dbc"][0]
        got = dbc_msgs.get(name)
        if st != "ok" or got is None:
            viol("dbc", name, "message-missing" if st == "ok" else "generation-failed", {"info": files if st != "ok" else None})
        else:
            es = {s["name"]: sig_proj(s) for s in exp["signals"]}
            gs = {s["name"]: sig_proj(s) for s in got["signals"]}
            if es != gs or got["len"] != exp["len"] or got["id"] != exp["id"]:
                viol("dbc", name, "message-differs", {"expected": exp, "observed": got})
        backends["dbc"] += 1
    # ---- generated C
    cdir = os.path.join(chk.workdir, "c")
    shutil.rmtree(cdir, ignore_errors=True)
    os.makedirs(cdir)
    def flat(name):
        return all(f["type"]["k"] in ("u", "i", "f32", "f64", "enum") for f in glue.find(sch["structs"], name)["fields"])
    # the C generator's advertised subset is flat structs: the embedded-struct twins are generated but not driven
    csch = {"structs": sch["structs"], "enums": sch["enums"], "impls": [im for im in sch["impls"] if flat(im["type"])]}
    stc, info = cdriver.generate_c(fcp, cdir)
    exe = None
    if stc == "ok":
        stc, exe = cdriver.build(csch, cdir)
    can_cases = [c for c in cases if c["frame"] and flat(c["struct"])]
    if stc != "ok":
        chk.count(1)
        chk.violation("c:%s" % stc, {"info": info if exe is None else exe})
    else:
        lines = []
        for c in can_cases:
            stt = glue.find(sch["structs"], c["struct"])
            lines.append("E %s %s" % (c["struct"], " ".join(cdriver.value_tokens(sch, stt, c["value"]))))
            lines.append("D %s %s" % (c["struct"], "".join("%02x" % b for b in c["frame"][0]["data"])))
        rc, outl = cdriver.run_driver(exe, lines)
        for i, c in enumerate(can_cases):
            stt = glue.find(sch["structs"], c["struct"])
            fr = c["frame"][0]
            le, ld = outl[2 * i].split(), outl[2 * i + 1].split()
            chk.count(2, traces=2)
            if not le or le[0] != "E" or not ld or ld[0] != "D":
                viol("c", c["struct"], "driver-crashed", {"output": outl[2 * i:2 * i + 2]})
                continue
            data = [int(le[3][j:j + 2], 16) for j in range(0, 16, 2)]
            if int(le[1]) != fr["id"] or int(le[2]) != fr["dlc"] or data != fr["data"]:
                viol("c.encode", c["struct"], "frame-differs", {"value": c["value"], "expected": fr, "observed": le[:4]})
            got = cdriver.parse_values(sch, stt, ld[1:])
            if got != c["value"] and not any(sum(v) == 1 and v[-1] == 1 for v in c["value"].values() if isinstance(v, list)):
                viol("c.decode", c["struct"], "value-differs", {"value": c["value"], "frame": fr, "observed": got})
            backends["c"] += 1
    # ---- generated C++ (static and reflection-loaded)
    xdir = os.path.join(chk.workdir, "cpp")
    stx, xexe = cppdriver.build(fcp, xdir)
    if stx != "ok":
        chk.count(1)
        chk.violation("cpp:%s" % stx, {"info": xexe})
    else:
        ans = cppdriver.run(xexe, codec_lines(sch, cases, True))
        for i, c in enumerate(cases):
            name, val, canon = c["struct"], c["value"], c["bytes"]
            a = ans[4 * i:4 * i + 4]
            chk.count(4, traces=4)
            for side, ea, da, names in (("cpp-static", a[0], a[1], False), ("cpp-dynamic", a[2], a[3], True)):
                e = parse_enc(ea)
                d = parse_dec(sch, name, da, names)
                if e != ("ok", canon):
                    viol(side + ".encode", name, "bytes-differ" if e[0] == "ok" else e[0], {"value": val, "canonical": canon, "observed": ea})
                if d != ("ok", val):
                    viol(side + ".decode", name, "value-differs" if d[0] == "ok" else d[0], {"value": val, "canonical": canon, "observed": da})
                backends[side] += 1
        # the successive versions of one struct (see the Python leg) loaded one after the other into the SAME run-time schema object
        lines, plan = [], []
        for base, vers in sorted(versions.items()):
            for k, (name, shared, msch, mfcp, cs) in enumerate(vers):
                try:
                    binary = cppdriver.reflection_binary(mfcp)
                except Exception as e:
                    raise core.Machinery("reflection of a renamed twin failed: %s" % e)
                bp = os.path.join(xdir, "ver_%d_%d.bin" % (base, k))
                with open(bp, "wb") as f:
                    f.write(binary)
                lines.append("DL " + bp)
                plan.append(("load", name, None, None, None))
                t = {"k": "struct", "name": shared}
                for c in cs[:12]:
                    lines.append("DE %s %s" % (shared, " ".join(cppdriver.val_tokens(msch, t, c["value"], True))))
                    lines.append("DD %s %s" % (shared, "".join("%02x" % b for b in c["bytes"]) or "-"))
                    plan.append(("enc", name, c, msch, shared))
                    plan.append(("dec", name, c, msch, shared))
        ans = cppdriver.run(xexe, lines)
        for (what, name, c, msch, shared), a in zip(plan, ans):
            chk.count(1, traces=1)
            if what == "load":
                if not a.startswith("ok"):
                    viol("cpp-dynamic.load", name, "reload-failed:as-a-later-version-of-one-struct", {"observed": a})
            elif what == "enc":
                e = parse_enc(a)
                if e != ("ok", c["bytes"]):
                    viol("cpp-dynamic.encode", name, ("bytes-differ" if e[0] == "ok" else e[0]) + ":as-a-later-version-of-one-struct",
                         {"value": c["value"], "canonical": c["bytes"], "observed": a})
            else:
                d = parse_dec(msch, shared, a, True)
                if d != ("ok", c["value"]):
                    viol("cpp-dynamic.decode", name, ("value-differs" if d[0] == "ok" else d[0]) + ":as-a-later-version-of-one-struct",
                         {"value": c["value"], "canonical": c["bytes"], "observed": a})
        backends["cpp-dynamic-versions"] = len(plan)
    shutil.rmtree(out, ignore_errors=True)
    chk.notes["cases_per_backend"] = backends
    chk.sample({"base_and_twins": [s for s in sch["structs"] if meta[s["name"]]["base"] == 7][:3],
                "case": cases[0]})
    chk.assumptions += ["all twins of a base live in one schema under distinct struct names; the SameCanon / SameLayout / SameDbc / SameFrame "
                        "invariants (TLC) state that every twin has the expectation of the first",
                        "C and C++ float comparison as in C06 / C03"]
    return chk.finish(
        "(M) MC_Perm: 14 base structs of 2..4 fields of mixed widths (8 fixed-size CAN bases, 6 with strings / optionals / dynamic arrays) "
        "x ALL permutations of their declaration order (%d twin structs), invariants SameCanon, SameLayout, SameDbc, SameFrame; (G) for "
        "every twin x boundary value: Python encode/decode, PackedEncoder.generate, generated DBC (own reader), generated C (gcc, "
        "frames), generated C++ static and reflection-loaded codecs - each compared with TLC's expectation for that twin; distinct = "
        "(twin struct, value)" % len(structs))
