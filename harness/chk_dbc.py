"""C05: the generated DBC against Dbc.tla (DbcOf / DbcDecode)."""
import json
import os
import random
import struct

from . import pycodec, core, tlc, glue, randgen, dbcread
from .chk_wire import SchemaCache
from .chk_layout import abs_for_text, abs_for_tlc

glue.setup_repo_path()


def generate_dbc(fcp, outdir):
    """-> ("ok", [{bus, contents}]) | ("raised", msg)"""
    from fcp_dbc import Generator
    try:
        r = Generator().generate(fcp, {"output": outdir})
        return "ok", [{"bus": x["bus"], "contents": x["contents"], "path": str(x["path"])} for x in r]
    except Exception as e:
        return "raised", "%s: %s" % (type(e).__name__, str(e)[:300])


SIG_KEYS = ("name", "start", "len", "order", "signed", "float", "unit", "is_mux", "mux_signal")


def sig_proj(s):
    d = {k: s[k] for k in SIG_KEYS}
    d["mux_ids"] = sorted(s["mux_ids"])
    return d


def compare_files(exp, files):
    """exp: [{bus, messages}] from TLC; files: [{bus, messages}] read back -> (clause, detail)"""
    eb = {x["bus"]: x["messages"] for x in exp}
    fb = {}
    for f in files:
        if f["bus"] in fb:
            return "bus-set", "bus %s twice" % f["bus"]
        fb[f["bus"]] = f["messages"]
    if set(eb) != set(fb):
        return "bus-set", "expected %s got %s" % (sorted(eb), sorted(fb))
    for bus in sorted(eb):
        em, fm = eb[bus], fb[bus]
        if len(em) != len(fm):
            return "message-count", bus
        for m in em:
            cand = [x for x in fm if x["name"] == m["name"] and x["id"] == m["id"]]
            if not cand:
                return "message-missing", m["name"]
            o = cand[0]
            if o["len"] != m["len"]:
                return "message-length", "%s: expected %d got %d" % (m["name"], m["len"], o["len"])
            es = {s["name"]: sig_proj(s) for s in m["signals"]}
            os_ = {s["name"]: sig_proj(s) for s in o["signals"]}
            if set(es) != set(os_) or len(o["signals"]) != len(m["signals"]):
                return "signal-set", "%s: %s vs %s" % (m["name"], sorted(es), sorted(os_))
            for n in sorted(es):
                if es[n] != os_[n]:
                    for k, cl in (("start", "signal-start"), ("len", "signal-length"), ("order", "signal-byte-order"),
                                  ("signed", "signal-signedness"), ("float", "signal-value-type"), ("unit", "signal-unit")):
                        if es[n][k] != os_[n][k]:
                            return cl, "%s.%s: expected %s got %s" % (m["name"], n, es[n], os_[n])
                    return "signal-multiplexing", "%s.%s: expected %s got %s" % (m["name"], n, es[n], os_[n])
    return "ok", None


def cantools_decode(db, frame_id, data, sigmeta):
    """decode through cantools -> {name: abstract value} (floats as IEEE words)"""
    msg = db.get_message_by_frame_id(frame_id)
    d = msg.decode(bytes(data), decode_choices=False, scaling=False)
    out = {}
    for k, v in d.items():
        s = sigmeta[k]
        if s["float"]:
            out[k] = glue.f32_to_bits(float(v)) if s["len"] == 32 else glue.f64_to_bits(float(v))
        else:
            out[k] = glue.int_to_abs(int(v))
    return out


def check_frames(chk, sch_text, contents_by_bus, frames, mode, sigdev):
    """frames: [{bus, id, bytes, decoded:[{name,value}]}] packed by TLC; decode each through cantools"""
    import cantools
    dbs = {}
    for fr in frames:
        bus = fr.get("bus", None)
        if bus not in contents_by_bus:
            continue
        if bus not in dbs:
            try:
                dbs[bus] = cantools.database.load_string(contents_by_bus[bus], database_format="dbc")
            except Exception as e:
                chk.violation("dbc:unreadable-by-cantools", {"mode": mode, "schema_text": sch_text, "bus": bus,
                                                            "error": str(e)[:300]})
                dbs[bus] = None
        db = dbs[bus]
        if db is None:
            continue
        exp = {d["name"]: d["value"] for d in fr["decoded"]}
        try:
            msg = db.get_message_by_frame_id(fr["id"])
            meta = {s.name: {"float": 1 if s.is_float else 0, "len": s.length} for s in msg.signals}
        except Exception as e:
            chk.violation("dbc.decode:%s:message-not-in-dbc" % sigdev, {"mode": mode, "schema_text": sch_text, "frame": fr,
                                                                     "error": "%s: %s" % (type(e).__name__, str(e)[:200])})
            continue
        try:
            got = cantools_decode(db, fr["id"], fr["bytes"], meta)
        except Exception as e:
            if len(exp) < len(meta):
                continue      # selector value outside the mux ids: cantools refuses, nothing to compare
            chk.violation("dbc.decode:%s:cantools-raised" % sigdev, {"mode": mode, "schema_text": sch_text, "frame": fr,
                                                                   "error": "%s: %s" % (type(e).__name__, str(e)[:200])})
            continue
        chk.count(1, traces=1)
        if got != exp:
            bad = sorted(k for k in set(exp) | set(got) if exp.get(k) != got.get(k))
            kinds = set()
            for k in bad:
                s = meta.get(k)
                kinds.add("float" if s and s["float"] else "int")
            chk.violation("dbc.decode:%s:value-differs[%s]" % (sigdev, "+".join(sorted(kinds))),
                          {"mode": mode, "schema_text": sch_text, "frame_bytes": fr["bytes"], "id": fr["id"],
                           "expected": exp, "decoded_through_dbc": got, "differing": bad,
                           "dbc": contents_by_bus[bus][-1500:]})


def schema_dev(sch):
    """input class of a schema for signatures"""
    feats = set()
    for im in sch.get("impls", []):
        for s in im.get("signals", []):
            for f in s["fields"]:
                if f["name"] == "endianess" and f["value"].get("s") == "big":
                    feats.add("big-endian")
                if f["name"] == "mux_count":
                    feats.add("mux")
    return "+".join(sorted(feats)) or "plain"


def rand_can_schema(rng):
    """random fixed-size CAN schema (<= 64 bits per message) with byte-aligned big-endian signals, mux, buses"""
    enums = [randgen.rand_enum(rng, n) for n in rng.sample(["inverter", "Eb", "ustate", "fmode", "i", "Id8", "Ea"], 2)]
    structs, impls = [], []
    inner = None
    if rng.random() < 0.5:
        inner = {"name": "Sin", "fields": [{"name": "p", "id": 1, "type": {"k": "i", "w": rng.randint(1, 9)}},
                                           {"name": "q", "id": 0, "type": {"k": "enum", "name": enums[0]["name"]}}]}
        structs.append(inner)
    nmsg = rng.randint(1, 3)
    used_ids = set()
    for mi in range(nmsg):
        budget = 64
        fields = []
        leafinfo = []   # (own name, start, width, kind)
        pos = 0
        nf = rng.randint(1, 6)
        ids = rng.sample(range(12), nf)
        order = sorted(range(nf), key=lambda i: ids[i])
        types = {}
        for i in order:
            left = budget - pos
            if left <= 0:
                break
            r = rng.random()
            if r < 0.12 and left >= 32:
                t, w = {"k": "f32"}, 32
            elif r < 0.17 and left >= 64:
                t, w = {"k": "f64"}, 64
            elif r < 0.3:
                e = rng.choice(enums)
                w = max(1, max(len(x["value"]["m"]) for x in e["items"]))
                t = {"k": "enum", "name": e["name"]}
                if w > left:
                    continue
            elif r < 0.4 and inner is not None:
                w = sum(x["type"].get("w", 0) for x in inner["fields"] if x["type"]["k"] == "i") + \
                    max(1, max(len(x["value"]["m"]) for x in enums[0]["items"]))
                t = {"k": "struct", "name": "Sin"}
                if w > left:
                    continue
            elif r < 0.5 and left >= 4:
                ew = rng.randint(1, max(1, left // 2 if left // 2 < 12 else 12))
                n = rng.randint(1, min(3, left // ew))
                t = {"k": "arr", "t": {"k": rng.choice("ui"), "w": ew}, "n": n}
                w = ew * n
            else:
                w = rng.choice([1, 3, 5, 7, 8, 8, 12, 16, 16, 24, 32, rng.randint(1, 64)])
                w = min(w, left)
                if pos % 8 == 0 and left >= 16 and rng.random() < 0.3:
                    w = rng.choice([x for x in (8, 16, 32, 64) if x <= left])
                t = {"k": rng.choice("ui"), "w": w}
            types[i] = (t, pos, w)
            pos += w
        for i in range(nf):
            if i in types:
                t, p, w = types[i]
                f = {"name": randgen.NAMES_F[i], "id": ids[i], "type": t}
                if rng.random() < 0.3:
                    f["unit"] = rng.choice(["V", "m/s", "degC"])
                fields.append(f)
                leafinfo.append((f["name"], p, w, t["k"]))
        if not fields:
            fields = [{"name": "fa", "id": 0, "type": {"k": "u", "w": 8}}]
            leafinfo = [("fa", 0, 8, "u")]
        sname = "Sm%d" % mi
        structs.append({"name": sname, "fields": fields})
        sigs = []
        for (n, p, w, k) in leafinfo:
            if k in ("u", "i") and p % 8 == 0 and w in (8, 16, 32, 64) and rng.random() < 0.5:
                sigs.append({"name": n, "fields": [{"name": "endianess", "value": {"s": "big"}}]})
        scal = [x for x in leafinfo if x[3] in ("u",) and x[2] <= 8]
        if scal and len(leafinfo) >= 2 and rng.random() < 0.4:
            sel = rng.choice(scal)
            others = [x for x in leafinfo if x[0] != sel[0] and x[3] in ("u", "i", "f32", "enum")
                      and not any(s["name"] == x[0] for s in sigs)]
            if others:
                tgt = rng.choice(others)
                sigs.append({"name": tgt[0], "fields": [{"name": "mux_count", "value": {"i": rng.randint(1, min(8, 1 << sel[2]))}},
                                                        {"name": "mux_signal", "value": {"s": sel[0]}}]})
                # a second group with ANOTHER selector in the same message
                sel2s = [x for x in scal if x[0] not in (sel[0], tgt[0])]
                oth2 = [x for x in others if x[0] != tgt[0] and all(x[0] != y[0] for y in sel2s[:1])]
                if sel2s and oth2 and rng.random() < 0.5:
                    sel2, tgt2 = sel2s[0], rng.choice(oth2)
                    if tgt2[0] != sel2[0]:
                        sigs.append({"name": tgt2[0], "fields": [{"name": "mux_count", "value": {"i": rng.randint(1, min(8, 1 << sel2[2]))}},
                                                                 {"name": "mux_signal", "value": {"s": sel2[0]}}]})
        fid = rng.choice([0, 1, 10, 100, 2047, rng.randint(0, 2047)])
        while fid in used_ids:
            fid = rng.randint(0, 2047)
        used_ids.add(fid)
        fl = [{"name": "id", "value": {"i": fid}}]
        if rng.random() < 0.5:
            fl.append({"name": "bus", "value": {"s": rng.choice(["b1", "b2", "chassis"])}})
        if rng.random() < 0.5:
            fl.append({"name": "device", "value": {"s": rng.choice(["ecu", "bms"])}})
        impls.append({"name": sname if rng.random() < 0.6 else "Msg%d" % mi, "protocol": "can", "type": sname,
                      "fields": fl, "signals": sigs})
        if rng.random() < 0.4:
            # the same struct bound a second time with other per-signal options
            fid2 = rng.randint(0, 2047)
            while fid2 in used_ids:
                fid2 = rng.randint(0, 2047)
            used_ids.add(fid2)
            alt = [s for s in sigs if rng.random() < 0.3]
            for (n, p, w, k) in leafinfo:
                if k in ("u", "i") and p % 8 == 0 and w in (8, 16, 32, 64) and not any(s["name"] == n for s in sigs) and rng.random() < 0.5:
                    alt.append({"name": n, "fields": [{"name": "endianess", "value": {"s": "big"}}]})
            fl2 = [{"name": "id", "value": {"i": fid2}}]
            if rng.random() < 0.5:
                fl2.append({"name": "bus", "value": {"s": rng.choice(["b1", "b2", "chassis"])}})
            impls.append({"name": "Alt%d" % mi, "protocol": "can", "type": sname, "fields": fl2, "signals": alt})
    if rng.random() < 0.3:
        impls.append({"name": "U0", "protocol": "uart", "type": structs[-1]["name"],
                      "fields": [{"name": "id", "value": {"i": 10}}], "signals": []})
    return {"structs": structs, "enums": enums, "impls": impls}


def run_c05(tier, seed):
    chk = core.Check("C05", tier, seed, "model_checking")
    rng = random.Random(seed)
    cache = SchemaCache()
    out = os.path.join(chk.workdir, "out")
    res = tlc.run("MC_Dbc", workdir=chk.workdir, env={"DBC_EMIT": "1", "DBC_SCOPE": tier}, timeout=2400, heap="6g")
    chk.add_tlc(res, "MC_Dbc")
    by_schema = {}
    for c in sorted(res.out, key=lambda c: json.dumps(c, sort_keys=True)):
        key = json.dumps(c["schema"], sort_keys=True)
        by_schema.setdefault(key, []).append(c)
    keys = sorted(by_schema)
    chk.notes["schemas_emitted"] = len(keys)
    chk.notes["frames_emitted"] = n_frames = len(res.out)
    limit = 700 if tier == "quick" else len(keys)
    if len(keys) > limit:
        rng.shuffle(keys)
        keys = keys[:limit]
    for ki, key in enumerate(keys):
        cases = by_schema[key]
        sch = abs_for_text(glue.strip_gen(cases[0]["schema"]))
        if ki % 2 == 1:
            # a name is not part of the description: the same schema with enum names that begin like builtin types
            from .chk_c import rename_enums
            sch = rename_enums(sch, {"Ea": "inverter", "Eb": "ustate", "Ec": "ignition", "Ed": "i", "Ee": "fmode", "Ef": "Id8", "Ez": "u"})
        text = glue.schema_text(sch)
        fcp = cache.get(sch)
        st, files = generate_dbc(fcp, out)
        chk.count(1, traces=1)
        chk.distinct(key)
        dev = schema_dev(sch)
        if st != "ok":
            chk.violation("dbc.generate:%s:failed-on-generable-schema" % dev, {"mode": "G", "schema_text": text, "error": files})
            continue
        read = [{"bus": f["bus"], "messages": dbcread.read(f["contents"])} for f in files]
        cl, detail = compare_files(cases[0]["dbc"], read)
        if cl != "ok":
            chk.violation("dbc.description:%s:%s" % (dev, cl), {"mode": "G", "schema_text": text, "detail": detail,
                                                              "expected": cases[0]["dbc"], "read_back": read})
        frames = [{"bus": [b["bus"] for b in c["dbc"] if any(m["name"] == c["impl"] and m["id"] == c["id"] for m in b["messages"])][0],
                   "id": c["id"], "bytes": c["bytes"], "decoded": c["decoded"]} for c in cases]
        check_frames(chk, text, {f["bus"]: f["contents"] for f in files}, frames, "G", dev)
        chk.sample({"schema": text, "expected_dbc": cases[0]["dbc"], "frame": frames[0]}, cap=2)
    # (T) random CAN schemas: the generate() call is recorded, TLC judges the read-back description and packs frames
    n = 150 if tier == "quick" else 4000
    events, meta = [], {}
    for i in range(n):
        sch = rand_can_schema(rng)
        if i % 3 == 0:
            # the same schema spread over several files (types / bindings in modules) and loaded with get_fcp: what is
            # generated must not depend on how the declarations are spread
            try:
                fcp, _ = pycodec.parse_schema_split(sch, chk.workdir, (i // 3) % 3)
            except RuntimeError as e:
                chk.count(1)
                chk.violation("dbc.generate:split-schema-rejected", {"mode": "T", "schema_text": glue.schema_text(sch), "error": str(e)[:1500]})
                continue
        else:
            fcp = cache.get(sch)
        st, files = generate_dbc(fcp, out)
        values = []
        for im in sch["impls"]:
            if im["protocol"] != "can":
                continue
            for _ in range(3):
                values.append({"impl": im["name"], "value": randgen.rand_value(rng, sch, {"k": "struct", "name": im["type"]})})
        ev = {"id": "g%d" % i, "schema": abs_for_tlc(sch), "ok": 1 if st == "ok" else 0,
              "files": [{"bus": f["bus"], "messages": dbcread.read(f["contents"])} for f in files] if st == "ok" else [],
              "values": values}
        events.append(ev)
        meta[ev["id"]] = (sch, st, files)
    # canaries
    cans = []
    for ev in [e for e in events if e["ok"] == 1 and e["files"] and e["files"][0]["messages"]][:6]:
        c = json.loads(json.dumps(ev))
        c["id"] = "canary-" + ev["id"]
        c["values"] = []
        sg = c["files"][0]["messages"][0]["signals"][0]
        w = len(cans) % 3
        if w == 0:
            sg["start"] += 1
        elif w == 1:
            sg["signed"] = 1 - sg["signed"]
        else:
            c["files"][0]["messages"][0]["len"] += 1
        cans.append(c)
    path = os.path.join(chk.workdir, "dbc-events.ndjson")
    with open(path, "w") as f:
        for e in events + cans:
            f.write(json.dumps(e) + "\n")
    res = tlc.run("Trace_Dbc", workdir=chk.workdir, env={"TRACE_FILE": path}, timeout=2400, heap="4g")
    chk.add_tlc(res, "Trace_Dbc[%d generate() calls]" % len(events))
    verd = {v["id"]: v for v in res.verdicts}
    for c in cans:
        if c["id"] not in verd or verd[c["id"]]["clause"] == "ok":
            raise core.Machinery("canary accepted by Trace_Dbc: %s" % c["id"])
    chk.notes["canaries_rejected"] = len(cans)
    for ev in events:
        if ev["id"] not in verd:
            raise core.Machinery("no verdict for %s" % ev["id"])
        sch, st, files = meta[ev["id"]]
        v = verd[ev["id"]]
        text = glue.schema_text(sch)
        dev = schema_dev(sch)
        chk.count(1, traces=1)
        chk.distinct(json.dumps(sch, sort_keys=True))
        if v["clause"] == "generated-ungenerable":
            raise core.Machinery("random CAN schema generator left the domain: %s" % text)
        if v["clause"] != "ok":
            chk.violation("dbc.description:%s:%s" % (dev, v["clause"]),
                          {"mode": "T", "schema_text": text, "clause": v["clause"], "status": st,
                           "files": files if st != "ok" else ev["files"]})
        if st == "ok":
            check_frames(chk, text, {f["bus"]: f["contents"] for f in files}, v["frames"], "T", dev)
    chk.assumptions += ["own SG_/BO_/SIG_VALTYPE_/SG_MUL_VAL_ reader and cantools' decoder are trusted readers of DBC text",
                        "big-endian leaves are byte aligned with 8/16/32/64 bits; message/signal identifiers are valid DBC identifiers",
                        "frames whose multiplexer value selects no id are not decoded (cantools refuses them)"]
    return chk.finish(
        "(M) MC_Dbc: DecodeInvertsPack/UnpackInvertsPack/AllWellPlaced/BusPartition over %d emitted frames of %d schemas; "
        "(G) %d of those schemas generated, read back and compared with DbcOf, every emitted frame decoded through the generated "
        "DBC by cantools; (T) %d random CAN schemas judged by Trace_Dbc and 3 random frames per message decoded by cantools; "
        "distinct = distinct schema" % (n_frames, chk.notes["schemas_emitted"], len(keys), n))
