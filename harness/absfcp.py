"""FcpV2 object (from the real parser) -> abstract schema, and the project's
cross-language vectors as Trace_Wire events."""
import json
import os

from . import glue

glue.setup_repo_path()


def abs_type(t):
    from fcp.specs import type as T
    if isinstance(t, T.UnsignedType):
        return {"k": "u", "w": int(t.name[1:])}
    if isinstance(t, T.SignedType):
        return {"k": "i", "w": int(t.name[1:])}
    if isinstance(t, T.FloatType):
        return {"k": "f32"}
    if isinstance(t, T.DoubleType):
        return {"k": "f64"}
    if isinstance(t, T.StringType):
        return {"k": "str"}
    if isinstance(t, T.ArrayType):
        return {"k": "arr", "t": abs_type(t.underlying_type), "n": int(t.size)}
    if isinstance(t, T.DynamicArrayType):
        return {"k": "dyn", "t": abs_type(t.underlying_type)}
    if isinstance(t, T.OptionalType):
        return {"k": "opt", "t": abs_type(t.underlying_type)}
    if isinstance(t, T.StructType):
        return {"k": "struct", "name": t.name}
    if isinstance(t, T.EnumType):
        return {"k": "enum", "name": t.name}
    raise ValueError(t)


def from_fcp(fcp):
    return {
        "structs": [{"name": s.name,
                     "fields": [{"name": f.name, "id": f.field_id, "type": abs_type(f.type)} for f in s.fields]}
                    for s in fcp.structs],
        "enums": [{"name": e.name,
                   "items": [{"name": x.name, "value": glue.int_to_abs(x.value)} for x in e.enumeration]}
                  for e in fcp.enums],
    }


_CONST = {"ULONG_MAX": 2 ** 64 - 1, "LLONG_MAX": 2 ** 63 - 1, "LLONG_MIN": -2 ** 63}


def _leaf(sch, t, x):
    k = t["k"]
    if k in ("u", "i"):
        return glue.int_to_abs(_CONST[x] if x in _CONST else int(x, 0))
    if k == "f32":
        return glue.f32_to_bits(float(x))
    if k == "f64":
        return glue.f64_to_bits(float(x))
    if k == "enum":
        e = glue.find(sch["enums"], t["name"])
        return glue.find(e["items"], x)["value"]
    if k == "str":
        return [ord(c) for c in x]
    if k in ("arr", "dyn"):
        return [_leaf(sch, t["t"], y) for y in x]
    if k == "opt":
        return [] if x is None else [_leaf(sch, t["t"], x)]
    raise ValueError(t)


def standard_vectors():
    from fcp.parser import get_fcp
    d = os.path.join(glue.REPO, "tests", "standardized")
    suites = json.load(open(os.path.join(d, "fcp_tests.json")))
    events = []
    for s in suites:
        fcp = get_fcp(os.path.join(d, s["schema"])).unwrap()
        sch = from_fcp(fcp)
        for t in s["tests"]:
            st = glue.find(sch["structs"], t["datatype"])
            val = {}
            for xp, x in t["decoded"].items():
                sname, fname = xp.split(":")
                f = glue.find(st["fields"], fname)
                val[fname] = _leaf(sch, f["type"], x)
            enc = [int(b, 0) if isinstance(b, str) else int(b) for b in t["encoded"]]
            base = "%s/%s" % (s["name"], t["name"])
            events.append({"id": "vec-enc-" + base, "kind": "enc", "schema": sch, "root": t["datatype"],
                           "value": val, "ok": 1, "bytes": enc})
            events.append({"id": "vec-dec-" + base, "kind": "dec", "schema": sch, "root": t["datatype"],
                           "bytes": enc, "ok": 1, "value": val})
    return events
