"""C10 (and the command legs of C14): generation is gated by verification (Gate.tla)."""
import contextlib
import hashlib
import importlib
import io
import json
import os
import random
import shutil

from . import core, tlc, glue, build, pycodec
from .chk_verifier import rand_tree, grammar_can_express

glue.setup_repo_path()

GENS = ("dbc", "can_c", "cpp", "nop")
CLASH = {"dbc": ["default.fcp", "default.dbc"], "can_c": ["can_frame.h", "old_device.c", "global_can.h"],
         "cpp": ["fcp.h", "buffer.h"], "nop": ["fcp.json"]}
DIR_STATES = ("absent", "empty", "unrelated", "clash")


def snapshot(root):
    """relative path -> (sha1, mtime_ns)"""
    out = {}
    if not os.path.isdir(root):
        return out
    for d, _, fs in os.walk(root):
        for f in fs:
            p = os.path.join(d, f)
            with open(p, "rb") as fh:
                h = hashlib.sha1(fh.read()).hexdigest()[:16]
            out[os.path.relpath(p, root)] = (h, os.stat(p).st_mtime_ns)
    return out


def prepare_dir(out, state, gen):
    shutil.rmtree(out, ignore_errors=True)
    if state == "absent":
        return
    os.makedirs(out)
    if state in ("unrelated", "clash"):
        with open(os.path.join(out, "notes.txt"), "w") as f:
            f.write("keep me\n")
    if state == "clash":
        for n in CLASH[gen]:
            with open(os.path.join(out, n), "w") as f:
                f.write("previous contents of %s\n" % n)
    for n in os.listdir(out):      # make mtimes old so that a rewrite is visible
        os.utime(os.path.join(out, n), ns=(10 ** 18, 10 ** 18))


@contextlib.contextmanager
def wrappers(gen, events, captured):
    """harness-side wrappers around Verifier.verify, <plug-in>.Generator.generate, codegen.handle_result.
    Each is skipped silently when the name does not exist (only the API-level observation is then used)."""
    undo = []
    try:
        try:
            import fcp.verifier as V
            orig_v = V.Verifier.verify

            def w_verify(self, tree):
                try:
                    r = orig_v(self, tree)
                except BaseException:
                    events.append({"op": "verify", "ok": 2})
                    raise
                try:
                    ok = 1 if r.is_ok() else 0
                except Exception:
                    ok = 2
                events.append({"op": "verify", "ok": ok})
                return r
            V.Verifier.verify = w_verify
            undo.append(lambda: setattr(V.Verifier, "verify", orig_v))
        except Exception:
            pass
        try:
            mod = importlib.import_module("fcp_" + gen)
            orig_g = mod.Generator.generate

            def w_generate(self, tree, ctx):
                try:
                    r = orig_g(self, tree, ctx)
                except BaseException:
                    events.append({"op": "generate", "raised": 1, "files": []})
                    captured["raised"] = True
                    raise
                r = list(r)
                captured["results"] = r
                events.append({"op": "generate", "raised": 0, "files": None})
                return r
            mod.Generator.generate = w_generate
            undo.append(lambda: setattr(mod.Generator, "generate", orig_g))
        except Exception:
            pass
        try:
            import fcp.codegen as C
            orig_h = C.handle_result

            def w_handle(result):
                if isinstance(result, dict) and result.get("type") == "file":
                    events.append({"op": "write", "path": str(result.get("path"))})
                return orig_h(result)
            C.handle_result = w_handle
            undo.append(lambda: setattr(C, "handle_result", orig_h))
        except Exception:
            pass
        yield
    finally:
        for u in undo:
            u()


def rel(out, p):
    p = os.path.abspath(str(p))
    o = os.path.abspath(out)
    return os.path.relpath(p, o) if p.startswith(o + os.sep) else "OUTSIDE:" + p


def returned_files(gen, fcp):
    """what the plug-in returns for this schema (a dry run that writes nothing): {relative name: contents}"""
    import importlib
    try:
        res = importlib.import_module("fcp_" + gen).Generator().generate(fcp, {"output": "DRYRUN", "templates": {}, "skels": {}})
        return {os.path.basename(str(r.get("path"))): str(r.get("contents")) for r in res if isinstance(r, dict) and r.get("type") == "file"}
    except Exception:
        return {}


def run_call(gen, fcp_or_text, out, via, manager=None):
    """one generate call -> observation dict (manager: reuse this GeneratorManager instead of a fresh one)"""
    from fcp.codegen import GeneratorManager
    from fcp.verifier import make_general_verifier
    events, captured = [], {}
    fs0 = snapshot(out)
    ret, msg = "Ok", ""
    with wrappers(gen, events, captured):
        try:
            if via == "api":
                buf = io.StringIO()
                with contextlib.redirect_stdout(buf):
                    mgr = manager if manager is not None else GeneratorManager(make_general_verifier())
                    r = mgr.generate(gen, None, None, fcp_or_text, out)
                try:
                    ret = "Ok" if r.is_ok() else "Err"
                except Exception:
                    ret = "Raised"
                    msg = "generate returned %r" % (r,)
            else:
                from click.testing import CliRunner
                from fcp.__main__ import generate_cmd
                res = CliRunner().invoke(generate_cmd, [gen, fcp_or_text, out])
                if res.exception is not None and not isinstance(res.exception, SystemExit):
                    ret, msg = "Raised", "%s: %s" % (type(res.exception).__name__, str(res.exception)[:200])
                elif "Failed to generate" in (res.output or "") or "Error" in (res.output or ""):
                    ret, msg = "Err", (res.output or "")[:300]
        except BaseException as e:     # SystemExit included
            ret, msg = "Raised", "%s: %s" % (type(e).__name__, str(e)[:200])
    fs1 = snapshot(out)
    files = []
    for r in captured.get("results", []):
        if isinstance(r, dict) and r.get("type") == "file":
            files.append({"path": rel(out, r.get("path")),
                          "contents": hashlib.sha1(str(r.get("contents")).encode()).hexdigest()[:16]})
    fpaths = {f["path"] for f in files}
    for e in events:
        if e["op"] == "write":
            e["path"] = rel(out, e["path"])
        if e["op"] == "generate":
            e["files"] = files if not e["raised"] else []
    def tok(p, snap, base):
        h, m = snap[p]
        if base is not None and p in base and base[p][0] == h and base[p][1] != m and p not in fpaths:
            return h + "*rewritten"
        return h
    return {"events": events, "ret": ret, "msg": msg, "files": files,
            "fs0": {p: fs0[p][0] for p in fs0}, "fs1": {p: tok(p, fs1, fs0) for p in fs1},
            "wrappers": sorted({e["op"] for e in events})}


def fs_json(d):
    """TLC's Json module cannot tell {} from []: always ship at least one entry"""
    x = dict(d)
    x["."] = "dir"
    return x


def run_c10(tier, seed, pid="C10"):
    chk = core.Check(pid, tier, seed, "fault_enumeration")
    rng = random.Random(seed)
    # (M) the Gate machine
    mc = tlc.run("MC_Gate", workdir=chk.workdir, env={}, timeout=1800, heap="4g", coverage=True)
    chk.add_tlc(mc, "MC_Gate")
    # fault catalogue from the verifier model: every rule x which check set x first failing node position
    ver = tlc.run("MC_Verifier", workdir=chk.workdir, env={"VER_EMIT": "1", "VER_SCOPE": "quick"}, timeout=3000, heap="8g")
    chk.add_tlc(ver, "MC_Verifier[catalogue]")
    trees = sorted(ver.out, key=lambda o: json.dumps(o["tree"], sort_keys=True))
    groups = {}
    for o in trees:
        for g in GENS:
            cs = g if g in ("dbc", "can_c") else "general"
            key = (g, tuple(o["fails"][cs]))
            groups.setdefault(key, []).append(o["tree"])
    per_group = 3 if tier == "quick" else 12
    scenarios = []
    for key in sorted(groups):
        lst = groups[key]
        picks = [lst[0], lst[-1]] + rng.sample(lst, min(len(lst), per_group))
        seen = set()
        for t in picks:
            k = json.dumps(t, sort_keys=True)
            if k in seen:
                continue
            seen.add(k)
            states = DIR_STATES if tier != "quick" else rng.sample(DIR_STATES, 2)
            for ds in states:
                scenarios.append((key[0], t, ds, "api"))
    # well-formed trees through the click command as well
    ok_trees = [o["tree"] for o in trees if o["dbc"] == 1 and o["can_c"] == 1 and grammar_can_express(o["tree"])]
    bad_trees = [o["tree"] for o in trees if o["general"] == 0 and grammar_can_express(o["tree"])
                 and not any(len(e["items"]) == 0 for e in o["tree"]["enums"])]
    ncli = 12 if tier == "quick" else 80
    for t in rng.sample(ok_trees, min(ncli, len(ok_trees))) + rng.sample(bad_trees, min(ncli, len(bad_trees))):
        scenarios.append((rng.choice(GENS), t, rng.choice(DIR_STATES), "cli"))
    nrand = 150 if tier == "quick" else 2500
    for _ in range(nrand):
        scenarios.append((rng.choice(GENS), rand_tree(rng), rng.choice(DIR_STATES), "api"))
    # two-struct trees (duplicate names included) written as main + front/limits.fcp + rear/limits.fcp, through the command
    two = [o["tree"] for o in trees if len(o["tree"]["structs"]) == 2 and not o["tree"]["enums"] and grammar_can_express(o["tree"])]
    dup = [t for t in two if t["structs"][0]["name"] == t["structs"][1]["name"]]
    for t in rng.sample(dup, min(12 if tier == "quick" else 120, len(dup))) + rng.sample(two, min(12 if tier == "quick" else 120, len(two))):
        scenarios.append((rng.choice(GENS), t, rng.choice(["unrelated", "clash"]), "cli-files"))
    # a pre-existing file that starts with exactly what the plug-in returns and continues with a stale tail
    good = [o["tree"] for o in trees if o["dbc"] == 1 and o["can_c"] == 1 and any(im["protocol"] == "can" for im in o["tree"]["impls"])]
    for t in rng.sample(good, min(10 if tier == "quick" else 80, len(good))):
        for g in ("dbc", "can_c"):
            scenarios.append((g, t, "superset", "api"))
        for g in ("dbc", "cpp", "nop"):
            scenarios.append((g, t, "crlf-copy", "api"))
    # output files below the output directory: a bus name with "/" makes fcp_dbc return <out>/<dir>/<name>.dbc; whether
    # the sub-directory exists beforehand or not, every returned file must end up written
    for t in rng.sample(good, min(12 if tier == "quick" else 100, len(good))):
        t2 = json.loads(json.dumps(t))
        k = 0
        for im in t2["impls"]:
            if im["protocol"] != "can":
                continue
            im["fields"] = [f for f in im["fields"] if f["name"] != "bus"] + \
                           [{"name": "bus", "value": {"s": ["chassis/front", "chassis/rear/left", "aux"][k % 3]}}]
            k += 1
        for ds in ("absent", "unrelated"):
            scenarios.append(("dbc", t2, ds, "api"))
    # one manager used twice with different plug-ins: (first generator, second generator, tree of the second call)
    only_dbc = [o["tree"] for o in trees if o["general"] == 1 and o["dbc"] == 0 and o["can_c"] == 1]
    only_c = [o["tree"] for o in trees if o["general"] == 1 and o["can_c"] == 0 and o["dbc"] == 1]
    both_ok = [o["tree"] for o in trees if o["dbc"] == 1 and o["can_c"] == 1]
    pairs = []
    npair = 6 if tier == "quick" else 40
    for g1, g2, pool in (("nop", "dbc", only_dbc), ("cpp", "can_c", only_c), ("can_c", "dbc", only_dbc), ("dbc", "can_c", only_c),
                         ("dbc", "nop", only_dbc), ("can_c", "cpp", only_c), ("nop", "dbc", both_ok), ("dbc", "can_c", both_ok)):
        for t2 in rng.sample(pool, min(npair, len(pool))):
            pairs.append((g1, g2, rng.choice(both_ok), t2))
    chk.notes["manager_reuse_pairs"] = len(pairs)
    chk.notes["scenarios"] = len(scenarios)
    chk.notes["fault_groups"] = len(groups)
    traces, meta = [], {}
    out = os.path.join(chk.workdir, "out")
    for i, (gen, tree, ds, via) in enumerate(scenarios):
        if ds in ("superset", "crlf-copy"):
            prepare_dir(out, "unrelated", gen)
            for name, contents in returned_files(gen, build.mk_fcp(tree)).items():
                os.makedirs(os.path.dirname(os.path.join(out, name)) or out, exist_ok=True)
                with open(os.path.join(out, name), "w", newline="") as f:
                    if ds == "superset":
                        f.write(contents + "\n/* stale tail left over from an earlier, longer output */\n")
                    else:
                        # the same output as saved by an editor of another platform: equal text, other bytes
                        f.write(contents.replace("\n", "\r\n"))
                os.utime(os.path.join(out, name), ns=(10 ** 18, 10 ** 18))
        else:
            prepare_dir(out, ds, gen)
        if via == "cli-files":
            # the schema spread over files: each struct in a module of its own, both called limits.fcp, in two directories
            try:
                root = os.path.join(chk.workdir, "multi")
                shutil.rmtree(root, ignore_errors=True)
                parts = {"front/limits.fcp": glue.schema_text({"structs": tree["structs"][:1]}),
                         "rear/limits.fcp": glue.schema_text({"structs": tree["structs"][1:]})}
                rest = glue.schema_text({k: tree.get(k, []) for k in ("enums", "impls", "services", "devices")}).split("\n")
                parts["main.fcp"] = "\n".join(rest[:1] + ["", "mod front.limits;", "mod rear.limits;"] + rest[1:])
                for relp, text in parts.items():
                    os.makedirs(os.path.dirname(os.path.join(root, relp)), exist_ok=True)
                    with open(os.path.join(root, relp), "w") as f:
                        f.write(text)
                path = os.path.join(root, "main.fcp")
            except Exception:
                continue
            obs = run_call(gen, path, out, "cli")
            from fcp.parser import get_fcp
            if get_fcp(path).is_err() and not any(e["op"] == "verify" for e in obs["events"]):
                continue          # rejected by the front end itself: not the gate's business
        elif via == "cli":
            try:
                text = glue.schema_text(tree)
                path = os.path.join(chk.workdir, "schema.fcp")
                with open(path, "w") as f:
                    f.write(text)
            except Exception:
                continue
            obs = run_call(gen, path, out, "cli")
            # the command parses the file itself; a front-end rejection is not a verifier rejection
            from fcp.parser import get_fcp
            if get_fcp(path).is_err():
                continue
        else:
            obs = run_call(gen, build.mk_fcp(tree), out, "api")
        tid = "s%d" % i
        traces.append({"id": tid, "gen": gen, "registered": [gen], "tree": tree, "fs0": fs_json(obs["fs0"]), "fs1": fs_json(obs["fs1"]),
                       "events": obs["events"], "ret": obs["ret"], "files": obs["files"]})
        meta[tid] = (gen, tree, ds, via, obs)
    from fcp.codegen import GeneratorManager
    from fcp.verifier import make_general_verifier
    for i, (g1, g2, t1, t2) in enumerate(pairs):
        mgr = GeneratorManager(make_general_verifier())
        reg = []
        for k, (g, t) in enumerate(((g1, t1), (g2, t2))):
            prepare_dir(out, "unrelated", g)
            obs = run_call(g, build.mk_fcp(t), out, "api", manager=mgr)
            reg = reg + [g]
            tid = "m%d-%d" % (i, k)
            traces.append({"id": tid, "gen": g, "registered": list(reg), "tree": t, "fs0": fs_json(obs["fs0"]), "fs1": fs_json(obs["fs1"]),
                           "events": obs["events"], "ret": obs["ret"], "files": obs["files"]})
            meta[tid] = (g, t, "unrelated/manager-reused-after-%s" % g1 if k else "unrelated", "api", obs)
    # the same manager AND the same parsed object: first a plug-in that accepts the tree, then one whose own checks reject it
    # (variant "same-object"), and the object edited in place between the two calls (variant "same-object-edited") - whatever the
    # verifier or the manager remember from the first call, the second call is decided on the tree as it is then
    for i, (g1, g2, t1, t2) in enumerate(pairs):
        for variant in ("same-object", "same-object-edited"):
            mgr = GeneratorManager(make_general_verifier())
            first = t2 if variant == "same-object" else t1
            obj = build.mk_fcp(first)
            reg = []
            for k, (g, t) in enumerate(((g1, first), (g2, t2))):
                if k == 1 and variant == "same-object-edited":
                    fresh = build.mk_fcp(t2)
                    for attr in ("structs", "enums", "impls", "services", "devices"):
                        getattr(obj, attr)[:] = getattr(fresh, attr)
                prepare_dir(out, "unrelated", g)
                obs = run_call(g, obj, out, "api", manager=mgr)
                reg = reg + [g]
                tid = "o%d-%s-%d" % (i, variant, k)
                traces.append({"id": tid, "gen": g, "registered": list(reg), "tree": t, "fs0": fs_json(obs["fs0"]), "fs1": fs_json(obs["fs1"]),
                               "events": obs["events"], "ret": obs["ret"], "files": obs["files"]})
                meta[tid] = (g, t, "unrelated/manager-and-%s-reused-after-%s" % (variant, g1) if k else "unrelated", "api", obs)
    # ONE parsed object generated, then edited in place (into another tree of the catalogue) and generated again - with the same
    # generator and a fresh manager each time: the gate decides on the tree as it is at the time of the call
    bad_general = [o["tree"] for o in trees if o["general"] == 0]
    nedit = 40 if tier == "quick" else 400
    for i in range(nedit):
        t1 = rng.choice(both_ok)
        t2 = rng.choice(bad_general if i % 2 == 0 else only_c + only_dbc + bad_general)
        g = rng.choice(GENS)
        obj = build.mk_fcp(t1)
        for k, t in enumerate((t1, t2)):
            if k == 1:
                fresh = build.mk_fcp(t2)
                for attr in ("structs", "enums", "impls", "services", "devices"):
                    getattr(obj, attr)[:] = getattr(fresh, attr)
            prepare_dir(out, "unrelated" if k == 0 else rng.choice(["unrelated", "clash"]), g)
            obs = run_call(g, obj, out, "api")
            tid = "e%d-%d" % (i, k)
            traces.append({"id": tid, "gen": g, "registered": [g], "tree": t, "fs0": fs_json(obs["fs0"]), "fs1": fs_json(obs["fs1"]),
                           "events": obs["events"], "ret": obs["ret"], "files": obs["files"]})
            meta[tid] = (g, t, "object-edited-in-place-after-a-successful-generate" if k else "unrelated", "api", obs)
    # ANY registered check gates generation - also one a user of the API registers on the verifier, in any category and at any
    # position among the checks of that category (after the general ones, before / after a passing one of its own)
    from fcp.error import error as fcp_error
    from fcp.result import Ok as ROk
    probe_text = ('version: "3"\nenum Mode { Off = 0, On = 1, }\nstruct Tele { a @0: u8, m @1: Mode, }\n'
                  'impl can for Tele { id: 100, device: "ecu", signal a { scale: 0.5, }, signal m { offset: 1, }, }\n'
                  'struct Req { x @0: u8, }\nservice Svc @1 { method set(Req) @0 returns Req, }\ndevice ecu { services: [Svc], }\n')
    cats = ["struct", "field", "enum", "impl", "signal_block", "type", "device", None]       # None: registered without a category
    for cat in cats:
        for g in GENS:
            for pos in ("only", "after-a-passing-check", "before-a-passing-check", "after-a-sibling-closure", "before-a-sibling-closure"):
                pfcp = pycodec.parse_text(probe_text) if hasattr(pycodec, "parse_text") else None
                if pfcp is None:
                    from fcp.parser import get_fcp_from_string
                    from fcp.error import Logger
                    pfcp = get_fcp_from_string(probe_text, Logger({})).unwrap()
                ver = make_general_verifier()
                calls = {"n": 0}

                def passing(self, fcp, node):
                    return ROk(())

                def rejecting(self, fcp, node, calls=calls):
                    calls["n"] += 1
                    return fcp_error("rejected by the probe check")

                def rule(reject, calls=calls):
                    # parametrised checks made by one factory: closures over different values that share their code object
                    def check(self, fcp, node):
                        if not reject:
                            return ROk(())
                        calls["n"] += 1
                        return fcp_error("rejected by the probe check")
                    return check
                if pos == "after-a-passing-check":
                    ver.register(passing, cat)
                if pos == "after-a-sibling-closure":
                    ver.register(rule(False), cat)
                ver.register(rule(True) if "sibling" in pos else rejecting, cat)
                if pos == "before-a-passing-check":
                    ver.register(passing, cat)
                if pos == "before-a-sibling-closure":
                    ver.register(rule(False), cat)
                prepare_dir(out, rng.choice(["unrelated", "clash", "absent"]), g)
                obs = run_call(g, pfcp, out, "api", manager=GeneratorManager(ver))
                chk.count(1, traces=1)
                chk.distinct("user-check|%s|%s|%s" % (cat, g, pos))
                if cat is None:
                    # an uncategorized check is given no node; today generation is then refused for every schema - what matters
                    # here is only that nothing is generated
                    calls["n"] = -1
                ran = any(e["op"] in ("generate", "write") for e in obs["events"])
                if obs["ret"] == "Ok" or obs["fs0"] != {p: h.split("*")[0] for p, h in obs["fs1"].items()} or ran:
                    chk.violation("generate[%s]:user-registered-check-did-not-gate:%s" % (g, cat or "uncategorized"),
                                  {"generator": g, "category": cat, "position": pos, "times_the_check_ran": calls["n"], "returned": obs["ret"],
                                   "message": obs["msg"], "events": obs["events"], "fs_before": obs["fs0"], "fs_after": obs["fs1"]})
    shutil.rmtree(out, ignore_errors=True)
    # canaries
    cans = []
    for t in traces:
        if len(cans) >= 6:
            break
        c = json.loads(json.dumps(t))
        c["id"] = "canary-" + t["id"]
        if t["ret"] == "Err" and len(cans) % 2 == 0:
            c["fs1"]["sneaked.txt"] = "abc"
        elif t["ret"] == "Ok" and t["files"]:
            c["fs1"][t["files"][0]["path"]] = "0000"
        else:
            continue
        cans.append(c)
    path = os.path.join(chk.workdir, "gate-traces.ndjson")
    with open(path, "w") as f:
        for t in traces + cans:
            f.write(json.dumps(t) + "\n")
    tr = tlc.run("Trace_Gate", workdir=chk.workdir, env={"TRACE_FILE": path}, timeout=3000, heap="4g")
    chk.add_tlc(tr, "Trace_Gate[%d calls]" % len(traces))
    verd = {v["id"]: v for v in tr.verdicts}
    for c in cans:
        if verd.get(c["id"], {"clause": "ok"})["clause"] == "ok" and verd[c["id"][7:]]["clause"] == "ok":
            raise core.Machinery("canary accepted by Trace_Gate: %s" % c["id"])
    chk.notes["canaries_rejected"] = len(cans)
    wr = set()
    for t in traces:
        if t["id"] not in verd:
            raise core.Machinery("no verdict for %s" % t["id"])
        gen, tree, ds, via, obs = meta[t["id"]]
        v = verd[t["id"]]
        wr |= set(obs["wrappers"])
        chk.count(1, traces=1)
        chk.distinct(json.dumps([gen, tree, ds, via], sort_keys=True))
        if v["clause"] != "ok":
            chk.violation("generate[%s]:%s:%s" % (gen, v["clause"], "+".join(v["fails"]) or ("well-formed" if v["wf"] else "?")),
                          {"generator": gen, "via": via, "dir_state": ds, "tree": tree, "clause": v["clause"],
                           "failing_rules": v["fails"], "returned": obs["ret"], "message": obs["msg"],
                           "events": obs["events"], "fs_before": obs["fs0"], "fs_after": obs["fs1"], "files_returned": obs["files"]})
    for tid in list(meta)[:3]:
        gen, tree, ds, via, obs = meta[tid]
        chk.sample({"generator": gen, "dir_state": ds, "via": via, "tree": tree, "returned": obs["ret"],
                    "events": [e["op"] for e in obs["events"]], "files": [f["path"] for f in obs["files"]]})
    chk.notes["wrappers_attached"] = sorted(wr)
    chk.assumptions += ["'reports an error' = generate returns Err / the command prints a rendered error; exit codes are not constrained",
                        "deletions on the accept path are not constrained; a rewrite of an unreturned file with identical bytes counts as a modification",
                        "a plug-in that raises on a schema all checks accept (cpp on a binding to a missing struct) is outside the statement"]
    return chk.finish(
        "scenario = generator x schema tree x pre-existing directory state x (API | click command); fault catalogue: for every "
        "generator and every set of failing checks in the MC_Verifier scope (%d groups) up to %d trees (first/last/random) x "
        "directory states, plus %d random larger trees; every call's action sequence (verify, plug-in generate, each file write, "
        "return) and directory snapshots are validated by Trace_Gate; distinct = (generator, tree, directory state, entry point)"
        % (len(groups), per_group + 2, nrand))
