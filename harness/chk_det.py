"""C17: generated artefacts are a deterministic function of the schema (Determinism.tla)."""
import hashlib
import json
import os
import random
import subprocess
from concurrent.futures import ThreadPoolExecutor

from . import core, tlc, glue
from .chk_syntax import rand_decls
from .chk_dbc import rand_can_schema

REPO_SCHEMAS = ["example/example.fcp", "example/temperature.fcp", "plugins/fcp_dbc/example/example.fcp",
                "plugins/fcp_can_c/example/example.fcp", "plugins/fcp_cpp/example/example.fcp",
                "plugins/fcp_cpp/tests/schemas/test.fcp", "tests/schemas/syntax/006_basic_service.fcp",
                "tests/schemas/syntax/011_device_services.fcp", "plugins/fcp_dbc/tests/schemas/generator/010_multiple_bus.fcp",
                "plugins/fcp_can_c/tests/003_msg_scheduling/test.fcp", "plugins/fcp_dbc/tests/schemas/generator/007_muxed_signals.fcp"]

SERVICE_SCHEMA = '''version: "3"

enum Mode { Off = 0, On = 1, Auto = 7, }
struct Req { mode @0: Mode, level @1: u12, }
struct Rsp { ok @0: u1, text @1: str, }
struct Tele { a @1: i16, b @0: [u8, 2], }
impl can for Tele { id: 100, bus: "b1", device: "ecu", period: 10, }
impl can for Req as ReqMsg { id: 101, bus: "b2", device: "ecu", }
impl uart for Tele { baud: 9600, }
impl json for Rsp { pretty: 1, }
service Control @1 { method set(Req) @0 returns Rsp, method get(Rsp) @1 returns Req, }
service Other @2 { method ping(Req) @0 returns Rsp, }
device ecu { services: [Control, Other], }
'''


MANY_DEVICES_SCHEMA = '''version: "3"

enum Kind { A = 0, B = 1, C = 2, D = 3, }
struct Ma { a @0: u8, k @1: Kind, }
struct Mb { b @0: i16, }
struct Mc { c @0: u24, }
struct Md { d @0: f32, }
struct Me { e @0: u1, f @1: u7, }
impl can for Ma { id: 1, device: "inverter", }
impl can for Mb { id: 2, device: "bms", }
impl can for Mc { id: 3, device: "dash", }
impl can for Md { id: 4, device: "charger", }
impl can for Me { id: 5, device: "vcu", bus: "aux", }
impl can for Ma as MaAux { id: 6, device: "logger", bus: "aux", }
impl uart for Mb { port: 1, }
impl spi for Mc { cs: 2, }
impl lin for Md { nad: 3, }
'''


# the same names as SERVICE_SCHEMA (enum, structs, messages, services, device, buses) with different contents: anything a
# process remembers by NAME from one schema shows when the other is generated afterwards in the same process
TWIN_SCHEMA = '''version: "3"

enum Mode { Off = 0, On = 1, }
struct Req { level @0: u5, mode @1: Mode, modes @2: [Mode, 3], }
struct Rsp { text @0: str, ok @1: u3, }
struct Tele { b @0: [u4, 3], a @1: i9, m @2: Mode, }
impl can for Tele { id: 200, bus: "b2", device: "ecu", }
impl can for Req as ReqMsg { id: 201, bus: "b1", device: "ecu", period: 25, }
impl uart for Tele { baud: 115200, }
impl json for Rsp { pretty: 0, }
service Control @3 { method set(Rsp) @1 returns Req, }
service Other @4 { method ping(Rsp) @2 returns Rsp, method pong(Req) @0 returns Req, }
device ecu { services: [Other], }
'''


# protocol names that differ in case only, signal blocks with a selector but no count, several signal options
OPTIONS_SCHEMA = '''version: "3"

struct Pa { sel @0: u2, value @1: u8, other @2: i16, }
struct Pb { x @0: u8, y @1: u8, }
impl can for Pa { id: 7, bus: "b1", device: "ecu", signal value { mux_signal: "sel", }, }
impl Can for Pa as PaUpper { id: 8, }
impl cAN for Pb as PbMixed { id: 9, }
impl CAN for Pb as PbAll { id: 10, }
impl can for Pb { id: 11, device: "ecu", signal y { endianess: "big", }, }
'''


# a schema every CAN generator must REFUSE part-way: the variable-size field sits inside a nested struct, after fields that can be laid out
REFUSED_SCHEMA = '''version: "3"

struct Label { code @0: u8, temps @1: [u8, 2], text @2: str, }
struct Reading { seq @0: u8, label @1: Label, tail @2: u16, }
impl can for Reading { id: 30, device: "ecu", }
'''


def digest(files):
    return hashlib.sha1(json.dumps(sorted(files.items())).encode()).hexdigest()[:20]


def run_job(job):
    path, seed = job
    env = dict(os.environ)
    env["PYTHONHASHSEED"] = str(seed)
    p = subprocess.run(["/venv/bin/python", os.path.join(core.VERIF, "harness", "det_driver.py"), path],
                       capture_output=True, text=True, env=env, timeout=600)
    out = []
    for line in p.stdout.split("\n"):
        if line.startswith("{"):
            out.append(json.loads(line))
    return p.returncode, out, p.stderr[-400:]


def run_c17(tier, seed):
    chk = core.Check("C17", tier, seed, "model_checking")
    rng = random.Random(seed)
    mc = tlc.run("MC_Determinism", workdir=chk.workdir, env={"DET_LEN": "3" if tier == "quick" else "4"}, timeout=1800, heap="4g")
    chk.add_tlc(mc, "MC_Determinism")
    hists = sorted((o["hist"] for o in mc.out), key=lambda h: json.dumps(h, sort_keys=True))
    chk.notes["histories_emitted"] = len(hists)
    # schema pool: repository schemas + generated ones with services / several protocols / buses
    pool = {}
    for rel in REPO_SCHEMAS:
        p = os.path.join(glue.REPO, rel)
        if os.path.exists(p):
            pool["repo:" + rel] = p
    sdir = os.path.join(chk.workdir, "schemas")
    os.makedirs(sdir)
    with open(os.path.join(sdir, "services.fcp"), "w") as f:
        f.write(SERVICE_SCHEMA)
    pool["gen:services"] = os.path.join(sdir, "services.fcp")
    with open(os.path.join(sdir, "devices.fcp"), "w") as f:
        f.write(MANY_DEVICES_SCHEMA)
    pool["gen:devices"] = os.path.join(sdir, "devices.fcp")
    with open(os.path.join(sdir, "twin.fcp"), "w") as f:
        f.write(TWIN_SCHEMA)
    pool["gen:services-twin"] = os.path.join(sdir, "twin.fcp")
    with open(os.path.join(sdir, "options.fcp"), "w") as f:
        f.write(OPTIONS_SCHEMA)
    pool["gen:options"] = os.path.join(sdir, "options.fcp")
    with open(os.path.join(sdir, "refused.fcp"), "w") as f:
        f.write(REFUSED_SCHEMA)
    refused = os.path.join(sdir, "refused.fcp")
    for i in range(4 if tier == "quick" else 20):
        sch = rand_can_schema(rng)
        p = os.path.join(sdir, "can%d.fcp" % i)
        with open(p, "w") as f:
            f.write(glue.schema_text(sch))
        pool["gen:can%d" % i] = p
    names = sorted(pool)
    nruns = 100 if tier == "quick" else 1200
    seeds = [0, 1, 2, 1000 + seed]
    jobs, jmeta = [], []
    picks = rng.sample(hists, min(nruns, len(hists)))
    # make sure every (generator, schema) is generated in at least two different processes/seeds
    base = []
    for n in names:
        for g in ("dbc", "can_c", "cpp", "nop"):
            base.append([{"op": "generate", "g": g, "s": "s1", "mode": "fresh"}])
            base.append([{"op": "parse", "s": "s1"}, {"op": "generate", "g": g, "s": "s1", "mode": "reused"},
                         {"op": "generate", "g": g, "s": "s1", "mode": "reused"}])
    runs = []
    for n in names:
        for k in range(0, 8, 1):
            runs.append((base[(names.index(n) * 8 + k) % len(base)], {"s1": n, "s2": rng.choice(names)}))
    for h in picks:
        runs.append((h, {"s1": rng.choice(names), "s2": rng.choice(names)}))
    # one parsed object handed to two DIFFERENT generators in a row (a generator must not leave marks on the tree)
    for n in names:
        for g1, g2 in (("can_c", "dbc"), ("dbc", "can_c"), ("cpp", "dbc"), ("can_c", "cpp"), ("dbc", "cpp"), ("cpp", "can_c")):
            if tier == "quick" and not n.startswith("gen:") and (g1, g2) not in (("can_c", "dbc"), ("cpp", "can_c")):
                continue
            runs.append(([{"op": "parse", "s": "s1"}, {"op": "generate", "g": g1, "s": "s1", "mode": "reused"},
                          {"op": "generate", "g": g2, "s": "s1", "mode": "reused"}], {"s1": n, "s2": n}))
    # two different schemas that declare the same names, one after the other in one process, in both orders
    gens = sorted(n for n in names if n.startswith("gen:can"))
    twins = [("gen:services", "gen:services-twin")] + [(a, b) for i, a in enumerate(gens) for b in gens[i + 1:]][:6 if tier == "quick" else 60]
    for a, b in twins:
        for x, y in ((a, b), (b, a)):
            for g1, g2 in (("dbc", "dbc"), ("can_c", "can_c"), ("cpp", "cpp"), ("nop", "can_c"), ("can_c", "dbc")):
                runs.append(([{"op": "generate", "g": g1, "s": "s2", "mode": "fresh"}, {"op": "generate", "g": g2, "s": "s1", "mode": "fresh"}],
                             {"s1": x, "s2": y}))
    # a generation that is REFUSED (it raises or returns an error part-way) must leave nothing behind for the generations after it
    for n in names:
        if not n.startswith("gen:") and tier == "quick" and names.index(n) % 3:
            continue
        for g1, g2 in (("dbc", "dbc"), ("can_c", "can_c"), ("dbc", "can_c"), ("can_c", "dbc"), ("can_c", "cpp")):
            runs.append(([{"op": "generate", "g": g1, "s": "s2", "mode": "fresh"}, {"op": "generate", "g": g2, "s": "s1", "mode": "fresh"},
                          {"op": "generate", "g": g1, "s": "s2", "mode": "fresh"}, {"op": "generate", "g": g1, "s": "s1", "mode": "fresh"}],
                         {"s1": n, "s2": "gen:refused"}))
    pool["gen:refused"] = refused
    # a watch loop: two revisions of one schema (same names, other contents) regenerated alternately, each tree released before
    # the next parse - anything remembered per object ADDRESS or per name from an earlier revision shows here
    for a, b in twins[:3]:
        for g in ("dbc", "can_c", "cpp"):
            runs.append(([{"op": "generate", "g": g, "s": ("s1", "s2")[k % 2], "mode": "fresh"} for k in range(24)], {"s1": a, "s2": b}))
    # the schemas whose output could depend on set/dict order get every generator under eight more hash seeds
    extra_seed = {}
    for n in ("gen:options", "gen:devices", "gen:services"):
        for g in ("cpp", "dbc", "can_c"):
            for hs in range(3, 11):
                extra_seed[len(runs)] = hs
                runs.append(([{"op": "generate", "g": g, "s": "s1", "mode": "fresh"}], {"s1": n, "s2": n}))
    for i, (h, bind) in enumerate(runs):
        job = {"hist": h, "schemas": {k: pool[v] for k, v in bind.items()}, "bad": 'version: "3"\nstruct Broken { a @0: Nope,',
               "outdir": os.path.join(chk.workdir, "out")}
        p = os.path.join(chk.workdir, "job%d.json" % i)
        with open(p, "w") as f:
            json.dump(job, f)
        s = extra_seed.get(i, seeds[i % len(seeds)])
        jobs.append((p, s))
        jmeta.append((h, bind, s))
    with ThreadPoolExecutor(max_workers=16) as ex:
        results = list(ex.map(run_job, jobs))
    events, emeta = [], []
    for (h, bind, s), (rc, out, err) in zip(jmeta, results):
        chk.count(1, traces=1)
        if rc != 0:
            raise core.Machinery("history driver failed: %s" % err)
        for o in out:
            key = bind[o["s"]]
            events.append({"g": o["g"], "s": key, "out": digest(o["files"])})
            emeta.append((h, bind, s, o))
            chk.distinct("%s|%s" % (o["g"], key))
    # canary: one event with a different digest must be rejected
    path = os.path.join(chk.workdir, "det-events.ndjson")
    with open(path, "w") as f:
        for e in events:
            f.write(json.dumps(e) + "\n")
    tr = tlc.run("Trace_Determinism", workdir=chk.workdir, env={"TRACE_FILE": path}, timeout=1800, heap="4g", workers=1)
    chk.add_tlc(tr, "Trace_Determinism[%d generate events of %d processes]" % (len(events), len(jobs)))
    canpath = os.path.join(chk.workdir, "det-canary.ndjson")
    with open(canpath, "w") as f:
        for e in events[:50]:
            f.write(json.dumps(e) + "\n")
        bad = dict(events[0])
        bad["out"] = "0" * 20
        f.write(json.dumps(bad) + "\n")
    tc = tlc.run("Trace_Determinism", workdir=chk.workdir, env={"TRACE_FILE": canpath}, timeout=600, heap="2g", workers=1)
    if not tc.verdicts or tc.verdicts[-1]["clause"] == "ok":
        raise core.Machinery("canary accepted by Trace_Determinism")
    chk.notes["canaries_rejected"] = 1
    if not tr.verdicts:
        raise core.Machinery("Trace_Determinism gave no verdict")
    v = tr.verdicts[-1]
    # TLC stops at the first differing output; report every (g, s) whose outputs differ by re-running the trace without
    # the offending key until it is accepted (each round is one more violation)
    rounds = 0
    cur = events
    while v["clause"] != "ok" and rounds < 12:
        e = cur[v["at"] - 1]
        same = [(m, x) for m, x in zip(emeta, events) if x["g"] == e["g"] and x["s"] == e["s"]]
        first, other = same[0], [y for y in same if y[1]["out"] != same[0][1]["out"]][0]
        diff = sorted(k for k in set(first[0][3]["files"]) | set(other[0][3]["files"])
                      if first[0][3]["files"].get(k) != other[0][3]["files"].get(k))
        cause = ("reused-tree" if any(m[3]["mode"] == "reused" for m, _ in same if _["out"] != first[1]["out"]) or first[0][3]["mode"] == "reused"
                 else "hash-seed-or-history")
        chk.violation("generate[%s]:output-differs:%s" % (e["g"], cause),
                      {"generator": e["g"], "schema": e["s"], "differing_files": diff[:10],
                       "run_a": {"hash_seed": first[0][2], "history": first[0][0], "mode": first[0][3]["mode"]},
                       "run_b": {"hash_seed": other[0][2], "history": other[0][0], "mode": other[0][3]["mode"]}})
        cur = [x for x in cur if not (x["g"] == e["g"] and x["s"] == e["s"])]
        rounds += 1
        with open(path, "w") as f:
            for x in cur:
                f.write(json.dumps(x) + "\n")
        if not cur:
            break
        tr = tlc.run("Trace_Determinism", workdir=chk.workdir, env={"TRACE_FILE": path}, timeout=1800, heap="4g", workers=1)
        v = tr.verdicts[-1]
    chk.sample({"history": jmeta[-1][0], "binding": jmeta[-1][1], "hash_seed": jmeta[-1][2]})
    chk.sample({"event": events[0]})
    chk.notes["processes"] = len(jobs)
    chk.notes["generate_events"] = len(events)
    chk.notes["hash_seeds"] = seeds
    chk.assumptions += ["equality of outputs = equality of the SET of (relative path, contents) with lines `// Generated using fcp ...` "
                        "masked; the order of the returned list is free", "four hash seeds (0, 1, 2, seed-derived), not all"]
    return chk.finish(
        "(M) MC_Determinism: all operation sequences of length <= %s over parse / failed parse / generate(4 generators x 2 schemas x "
        "fresh|reused tree) with the memo discipline (Deterministic invariant); (T) %d processes: every (generator, schema) of a pool "
        "of %d schemas (repository examples, services + several protocols/buses, random CAN schemas) from fresh and reused trees, plus "
        "%d TLC-emitted histories bound to random schema pairs, under PYTHONHASHSEED in %s; all generate events merged into one trace "
        "that Trace_Determinism validates; distinct = (generator, schema)" % (3 if tier == "quick" else 4, len(jobs), len(names), len(picks), seeds))
