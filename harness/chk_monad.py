"""MON (extension, not one of the listed properties): fcp.result / fcp.maybe against Monad.tla.

TLC checks the monad laws on the specification (left/right identity, associativity, map composition, or_else duality,
attempt()+@catch = map, do-notation = and_then) and emits every pipeline  start ; <= depth chaining combinators ; terminal
operation  over Result and Maybe with the specified outcome; each pipeline is evaluated with the real classes."""
import json

from . import core, tlc, glue

glue.setup_repo_path()


def run_mon(tier, seed):
    chk = core.Check("MON", tier, seed, "model_checking", ext=True)
    from fcp import result as R, maybe as M
    res = tlc.run("Gen_Monad", workdir=chk.workdir, env={"MON_DEPTH": "2" if tier == "quick" else "3"}, timeout=3000, heap="6g")
    chk.add_tlc(res, "Gen_Monad")
    F = {"inc": lambda v: (v + 1) % 4, "dbl": lambda v: (2 * v) % 4, "zero": lambda v: 0}
    K = {"ok_inc": lambda v: R.Ok((v + 1) % 4), "fail_odd": lambda v: R.Err("e1") if v % 2 == 1 else R.Ok(v), "fail": lambda v: R.Err("e2")}
    G = {"swap": lambda e: "e2" if e == "e1" else "e1", "same": lambda e: e}
    RR = {"recover": lambda e: R.Ok(0), "refail": lambda e: R.Err("e2"), "retry_e1": lambda e: R.Ok(1) if e == "e1" else R.Err(e)}
    MM = {"some_inc": lambda v: M.Some((v + 1) % 4), "none_odd": lambda v: M.Nothing() if v % 2 == 1 else M.Some(v), "none": lambda v: M.Nothing()}
    OO = {"some0": lambda: M.Some(0), "none": lambda: M.Nothing()}

    def mk(a):
        t = a["t"]
        return {"ok": lambda: R.Ok(a["v"]), "err": lambda: R.Err(a["e"]), "some": lambda: M.Some(a["v"]), "nothing": lambda: M.Nothing()}[t]()

    def show(x):
        if isinstance(x, R.Ok):
            return {"k": "res", "r": {"t": "ok", "v": x.ok_value}}
        if isinstance(x, R.Err):
            return {"k": "res", "r": {"t": "err", "e": x.err_value}}
        if isinstance(x, M.Some):
            return {"k": "may", "m": {"t": "some", "v": x.some_value}}
        if isinstance(x, M.Nothing):
            return {"k": "may", "m": {"t": "nothing"}}
        if x is None:
            return {"k": "val", "v": "None"}
        if isinstance(x, bool):
            return {"k": "val", "v": 1 if x else 0}
        if isinstance(x, list):
            return {"k": "val", "v": x}
        return {"k": "val", "v": x}

    def run(kind, prog):
        cur = mk(prog[0]["a"])
        for st in prog[1:]:
            op, a = st["op"], st["a"]
            if kind == "res":
                if op == "map": cur = cur.map(F[a])
                elif op == "map_err": cur = cur.map_err(G[a])
                elif op == "and_then": cur = cur.and_then(K[a])
                elif op == "or_else": cur = cur.or_else(RR[a])
                elif op == "inspect": cur = cur.inspect(lambda v: None).inspect_err(lambda e: None)
                elif op == "caught":
                    @M.catch
                    def body(r, f=F[a]):
                        return R.Ok(f(r.attempt()))
                    cur = body(cur)
                elif op == "do_with":
                    r2 = mk(a)
                    c = cur
                    cur = R.do(R.Ok((x + y) % 4) for x in c for y in r2)
                elif op == "unwrap": return show(cur.unwrap())
                elif op == "unwrap_err": return show(cur.unwrap_err())
                elif op == "unwrap_or": return show(cur.unwrap_or(a))
                elif op == "map_or": return show(cur.map_or(3, F[a]))
                elif op == "is_ok":
                    if cur.is_ok() == cur.is_err() or R.is_ok(cur) != cur.is_ok():
                        return {"k": "val", "v": "is_ok/is_err disagree"}
                    return show(cur.is_ok())
                elif op == "ok": return show(cur.ok())
                elif op == "err": return show(cur.err())
                elif op == "iter": return show(list(cur) if isinstance(cur, R.Ok) else _iter_err(cur))
                elif op == "attempt": return show(cur.attempt())
                elif op == "result": return show(cur)
                else: raise core.Machinery("unknown op " + op)
            else:
                if op == "map": cur = cur.map(F[a])
                elif op == "and_then": cur = cur.and_then(MM[a])
                elif op == "or_else": cur = cur.or_else(OO[a])
                elif op == "caught":
                    @M.catch
                    def body(m, f=F[a]):
                        return M.Some(f(m.attempt()))
                    cur = body(cur)
                elif op == "unwrap": return show(cur.unwrap())
                elif op == "unwrap_or": return show(cur.unwrap_or(a))
                elif op == "map_or": return show(cur.map_or(3, F[a]))
                elif op == "is_some":
                    if cur.is_some() == cur.is_nothing():
                        return {"k": "val", "v": "is_some/is_nothing disagree"}
                    return show(cur.is_some())
                elif op == "some": return show(cur.some())
                elif op == "attempt": return show(cur.attempt())
                elif op == "ok_or": return show(cur.ok_or(a))
                elif op == "maybe":
                    back = M.maybe(cur.some())
                    if back != cur:
                        return {"k": "val", "v": "maybe(m.some()) != m"}
                    return show(cur)
                else: raise core.Machinery("unknown op " + op)
        raise core.Machinery("pipeline without terminal operation")

    def _iter_err(r):
        # iterating an Err yields nothing when driven by do(); a plain list() of it raises DoException by design
        try:
            return list(r)
        except R.DoException:
            return []

    progs = sorted(res.out, key=lambda o: json.dumps(o, sort_keys=True))
    for o in progs:
        chk.count(1, traces=1)
        chk.distinct(json.dumps(o["prog"], sort_keys=True))
        try:
            got = run(o["kind"], o["prog"])
        except core.Machinery:
            raise
        except Exception as e:
            got = {"k": "raise", "exc": type(e).__name__}
        if got != o["out"]:
            last = o["prog"][-1]["op"]
            chk.violation("%s.%s:%s" % ("result" if o["kind"] == "res" else "maybe", last,
                                       "raised" if got.get("k") == "raise" else "outcome-differs"),
                          {"pipeline": o["prog"], "specified": o["out"], "observed": got})
    if progs:
        chk.sample({"pipeline": progs[len(progs) // 3]["prog"], "specified": progs[len(progs) // 3]["out"]})
    chk.assumptions += ["functions passed to combinators come from the named catalogue of Monad.tla (total, side-effect free)",
                        "values 0..3, errors e1/e2; the async variants are not specified"]
    return chk.finish("laws of Monad.tla as TLC invariants (identity, associativity, map composition, or_else duality, attempt()+@catch = "
                      "map, do-notation = and_then, Maybe laws); every pipeline start ; <= %s chaining combinators ; terminal operation over "
                      "Result (map, map_err, and_then, or_else, inspect, @catch+attempt, do) and Maybe (map, and_then, or_else, @catch+attempt, "
                      "ok_or, maybe()) evaluated with the real classes; distinct = pipeline" % ("2" if tier == "quick" else "3"))
