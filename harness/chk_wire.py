"""C01 / C02 / C16: the Python codec against the Wire specification.

(M) MC_Wire: exhaustive TLC run of the small-step encoder/decoder machine.
(G) every case TLC emitted (schema, value, canonical bytes, count-prefix offsets) is
    replayed into fcp.serde.
(T) seeded random schemas/values far outside the MC bounds are run through fcp.serde,
    every call is recorded and Trace_Wire (TLC) judges each event.
"""
import json
import os
import random

from . import core, tlc, glue, randgen, pycodec


# ---------------------------------------------------------------- signatures
def kinds_of(sch, t, acc=None):
    acc = set() if acc is None else acc
    k = t["k"]
    if k == "struct":
        for f in glue.find(sch["structs"], t["name"])["fields"]:
            kinds_of(sch, f["type"], acc)
    elif k in ("arr", "dyn", "opt"):
        acc.add(k)
        kinds_of(sch, t["t"], acc)
    else:
        acc.add(k)
    return acc


def id_order_differs(sch, root):
    for st in sch["structs"]:
        ids = [f["id"] for f in st["fields"]]
        if ids != sorted(ids):
            return True
    return False


def shape_key(sch, root):
    st = glue.find(sch["structs"], root)
    return json.dumps([[f["id"], f["type"]] for f in st["fields"]], sort_keys=True)


def feature(sch, root):
    ks = sorted(kinds_of(sch, {"k": "struct", "name": root}))
    return "+".join(ks) + ("/ids-against-declaration" if id_order_differs(sch, root) else "")


def leaf_diffs(sch, t, exp, obs, path="", out=None):
    """structural comparison of two abstract values of type t -> [(path, type, exp, obs)]"""
    out = [] if out is None else out
    k = t["k"]
    try:
        if k == "struct":
            for f in glue.find(sch["structs"], t["name"])["fields"]:
                leaf_diffs(sch, f["type"], exp[f["name"]], obs[f["name"]], path + "/" + f["name"], out)
        elif k in ("arr", "dyn", "opt"):
            if len(exp) != len(obs):
                out.append((path, t, exp, obs))
            else:
                for i, (a, b) in enumerate(zip(exp, obs)):
                    leaf_diffs(sch, t["t"], a, b, path + "/%d" % i, out)
        elif exp != obs:
            out.append((path, t, exp, obs))
    except (KeyError, TypeError, IndexError):
        out.append((path, t, exp, obs))
    return out


def classify_diff(sch, root, exp, obs):
    """name the deviation between the expected and the observed decoded value"""
    if not isinstance(obs, dict):
        return "no-value"
    d = leaf_diffs(sch, {"k": "struct", "name": root}, exp, obs)
    if not d:
        return "equal"
    def is_min_flip(t, e, o):
        return (t["k"] == "i" and isinstance(o, dict) and e["s"] == 1 and e["m"] == [0] * (t["w"] - 1) + [1]
                and o == {"s": 0, "m": e["m"]})
    if all(is_min_flip(t, e, o) for _, t, e, o in d):
        return "signed-minimum-decodes-as-positive"
    return "value-differs[" + "+".join(sorted({t["k"] for _, t, _, _ in d})) + "]"


# ---------------------------------------------------------------- generation
def mc_cases(chk, scope, emit=True, timeout=1500):
    res = tlc.run("MC_Wire", workdir=chk.workdir, env={"WIRE_SCOPE": scope, "WIRE_EMIT": "1" if emit else "0"},
                  timeout=timeout, heap="4g")
    chk.add_tlc(res, "MC_Wire[%s]" % scope)
    cases = sorted(res.out, key=lambda c: json.dumps(c, sort_keys=True))   # TLC's print order varies with 16 workers
    for c in cases:
        c["schema"] = glue.strip_gen(c["schema"])
    return cases


def wide_enum_cases():
    """enums whose largest enumerator sits at / next to a power of two far beyond 8 bits, between two sub-byte fields;
    one case per enumerator (widths computed in floating point go wrong from 2^49 on)"""
    out = []
    for k in (8, 15, 16, 31, 32, 33, 47, 48, 49, 50, 51, 52, 53, 54, 55, 60, 62, 63):
        for j, top in enumerate(((1 << k), (1 << k) + 1, (1 << k) + 2, (1 << (k + 1)) - 1, (1 << (k + 1)) - 2)):
            if top >= (1 << 64):
                continue
            vals = [0, 1, top] if j % 2 == 0 else [top, 3, 0]          # the largest enumerator last / first
            en = {"name": "Ea", "items": [{"name": "Xa%d" % i, "value": randgen.int_to_abs(v)} for i, v in enumerate(vals)]}
            sch = {"structs": [{"name": "Sa", "fields": [{"name": "fa", "id": 0, "type": {"k": "u", "w": 3}},
                                                         {"name": "fb", "id": 1, "type": {"k": "enum", "name": "Ea"}},
                                                         {"name": "fc", "id": 2, "type": {"k": "u", "w": 5}}]}], "enums": [en]}
            for it in en["items"]:
                out.append({"schema": sch, "root": "Sa", "value": {"fa": randgen.int_to_abs(5), "fb": it["value"], "fc": randgen.int_to_abs(21)}})
    return out


def random_cases(rng, nschemas, nvalues, depth=3):
    randgen.NAN_OK = True          # these values stay inside Python
    out = wide_enum_cases()
    for _ in range(nschemas):
        sch = randgen.rand_schema(rng, depth=depth, wide_enums=True)
        for st in sch["structs"]:
            for _ in range(nvalues):
                out.append({"schema": sch, "root": st["name"],
                            "value": randgen.rand_value(rng, sch, {"k": "struct", "name": st["name"]})})
    return out


def rpc_cases(chk, cache):
    """the rpc wrapper structs (<Payload>Input / <Payload>Output with the ServiceId / <Service>MethodId enums) that
    fcp_cpp.rpc.generate_rpc adds to a schema with services, as cases for the Python codec: the schema object is the one
    generate_rpc returns (its enums are extended AFTER construction), the expectation is TLC's (Rpc.tla, Gen_Rpc)"""
    from fcp_cpp.rpc import generate_rpc
    from .chk_layout import abs_for_text
    res = tlc.run("Gen_Rpc", workdir=chk.workdir, env={}, timeout=900, heap="2g")
    chk.add_tlc(res, "Gen_Rpc")
    out = []
    for so in [o for o in res.out if o["kind"] == "schema"]:
        base = abs_for_text(glue.strip_gen(so["schema"]))
        ext = abs_for_text(glue.strip_gen(so["extended"]))
        ext = {"structs": ext["structs"], "enums": ext["enums"]}
        try:
            fcp = generate_rpc(pycodec.parse_schema(base)[0])
        except Exception as e:
            raise core.Machinery("generate_rpc failed on a Gen_Rpc schema: %s: %s" % (type(e).__name__, e))
        cache.put(ext, fcp)
        for c in res.out:
            if c["kind"] == "case" and c["services"] == so["schema"]["services"]:
                out.append({"schema": ext, "root": c["struct"], "value": c["value"], "bytes": c["bytes"], "rpc": 1})
    out.sort(key=lambda c: json.dumps([c["root"], c["value"]], sort_keys=True))
    return out[::3]


class SchemaCache:
    def __init__(self):
        self.c = {}

    def put(self, sch, fcp):
        """a schema object that cannot be rebuilt from the abstract schema: never evicted"""
        self.pinned = getattr(self, "pinned", {})
        self.pinned[json.dumps(sch, sort_keys=True)] = fcp

    def get(self, sch):
        key = json.dumps(sch, sort_keys=True)
        if key in getattr(self, "pinned", {}):
            return self.pinned[key]
        if key not in self.c:
            if len(self.c) > 4000:
                self.c.clear()
            fcp = pycodec.parse_schema(sch)[0]
            if len(self.c) % 2 == 1:
                # every other schema object has been used by the other consumers of a parsed schema first
                pycodec.exercise(fcp)
            self.c[key] = fcp
        return self.c[key]


def trace_wire(chk, events, name="Trace_Wire", batch=8000, max_bytes=12_000_000):
    """TLC judges every recorded event; returns {id: verdict}.  TLC holds the whole event file in memory, so large sets
    of events go in several runs."""
    if not events:
        return {}
    v = {}
    parts, cur, size = [], [], 0
    for e in events:               # a batch is bounded by events and by bytes (reflection records are large)
        line = json.dumps(e)
        if cur and (len(cur) >= batch or size + len(line) > max_bytes):
            parts.append(cur)
            cur, size = [], 0
        cur.append(line)
        size += len(line)
    if cur:
        parts.append(cur)
    for b, part in enumerate(parts):
        path = os.path.join(chk.workdir, "events-%d-%d.ndjson" % (len(os.listdir(chk.workdir)), b))
        with open(path, "w") as f:
            for line in part:
                f.write(line + "\n")
        res = tlc.run("Trace_Wire", workdir=chk.workdir, env={"TRACE_FILE": path}, timeout=2400, heap="4g")
        chk.add_tlc(res, "%s[%d events]" % (name, len(part)))
        v.update({x["id"]: x for x in res.verdicts})
        os.remove(path)
    missing = [e["id"] for e in events if e["id"] not in v]
    if missing:
        raise core.Machinery("Trace_Wire gave no verdict for %d events (first id %s)" % (len(missing), missing[0]))
    return v


def canaries(events, rng, n=6):
    """copies of real, accepted-looking events with one field corrupted; TLC must reject them"""
    out = []
    pool = [e for e in events if e["kind"] in ("enc", "rt", "dec") and e.get("ok") == 1]
    rng.shuffle(pool)
    for e in pool[:n]:
        c = json.loads(json.dumps(e))
        c["id"] = "canary-%s" % e["id"]
        if e["kind"] == "enc" and c["bytes"]:
            c["bytes"][rng.randrange(len(c["bytes"]))] ^= 1 << rng.randrange(8)
        elif e["kind"] == "rt":
            c["value2"] = corrupt_value(c["value2"])
            if c["value2"] is None:
                continue
        elif e["kind"] == "dec":
            c["value"] = corrupt_value(c["value"])
            if c["value"] is None:
                continue
        else:
            continue
        out.append(c)
    return out


def corrupt_value(v):
    """flip something inside an abstract value (first leaf found)"""
    if isinstance(v, dict) and set(v.keys()) == {"s", "m"}:
        return {"s": v["s"], "m": v["m"] + [1]} if not v["m"] or v["s"] == 0 else {"s": 0, "m": v["m"]}
    if isinstance(v, dict):
        for k in sorted(v):
            c = corrupt_value(v[k])
            if c is not None:
                d = dict(v)
                d[k] = c
                return d
        return None
    if isinstance(v, list):
        if v and all(isinstance(x, int) and x in (0, 1) for x in v) and len(v) in (32, 64):
            return [1 - v[0]] + v[1:]
        if v and all(isinstance(x, int) for x in v):
            return [v[0] ^ 1] + v[1:]
        if not v:
            return None
        for i, x in enumerate(v):
            c = corrupt_value(x)
            if c is not None:
                return v[:i] + [c] + v[i + 1:]
    return None


def check_canaries(verdicts, cans):
    for c in cans:
        orig = verdicts.get(c["id"][len("canary-"):])
        if orig is not None and orig["clause"] != "ok":
            continue          # the event the canary was made from is itself rejected: its corruption proves nothing
        if verdicts[c["id"]]["clause"] == "ok":
            raise core.Machinery("canary accepted by Trace_Wire: %s" % json.dumps(c)[:600])


# ---------------------------------------------------------------------- C01
def run_c01(tier, seed):
    chk = core.Check("C01", tier, seed, "model_checking")
    rng = random.Random(seed)
    cache = SchemaCache()
    scopes = ["quick", "alignq"] if tier == "quick" else ["quick", "align"]
    limit = {"quick": 9000, "alignq": 9000} if tier == "quick" else {}
    root_t = lambda c: {"k": "struct", "name": c["root"]}
    for scope in scopes:
        cases = mc_cases(chk, scope)
        chk.notes.setdefault("cases_emitted", {})[scope] = len(cases)
        if scope in limit and len(cases) > limit[scope]:
            rng.shuffle(cases)
            cases = cases[:limit[scope]]
        for c in cases:
            sch, root, val = c["schema"], c["root"], c["value"]
            fcp = cache.get(sch)
            chk.count(1, traces=1)
            chk.distinct(shape_key(sch, root) + json.dumps(val, sort_keys=True))
            st, enc = pycodec.encode(fcp, sch, root, val)
            if st != "ok":
                chk.violation("serde.encode:%s:%s" % (feature(sch, root), st),
                              {"mode": "G", "schema_text": glue.schema_text(sch), "root": root, "value": val, "observed": enc})
                continue
            st2, dec = pycodec.decode(fcp, sch, root, enc)
            if st2 != "ok" or dec != val:
                dev = classify_diff(sch, root, val, dec) if st2 == "ok" else st2
                chk.violation("serde.roundtrip:%s" % dev if dev.startswith("signed-minimum") else
                              "serde.roundtrip:%s:%s" % (feature(sch, root), dev),
                              {"mode": "G", "schema_text": glue.schema_text(sch), "root": root, "value": val,
                               "py_value": repr(glue.to_py(sch, root_t(c), val)), "encoded": enc, "decoded": dec})
            chk.sample({"schema": glue.schema_text(sch), "value": val, "encoded": enc})
    # (T) random executions judged by TLC
    n_s, n_v = (150, 4) if tier == "quick" else (2500, 6)
    rc = random_cases(rng, n_s, n_v) + rpc_cases(chk, cache)
    events = []
    meta = {}
    for i, c in enumerate(rc):
        sch, root, val = c["schema"], c["root"], c["value"]
        fcp = cache.get(sch)
        st, enc = pycodec.encode(fcp, sch, root, val)
        ev = {"id": "r%d" % i, "kind": "rt", "schema": sch, "root": root, "value": val, "ok": 0, "value2": []}
        info = {"encoded": enc}
        if st == "ok":
            st2, dec = pycodec.decode(fcp, sch, root, enc)
            info["decoded"] = dec
            if st2 == "ok":
                ev["ok"] = 1
                ev["value2"] = dec
            else:
                info["decode_status"] = st2
        else:
            info["encode_status"] = st
        events.append(ev)
        meta[ev["id"]] = (c, info)
    cans = canaries(events, rng)
    verdicts = trace_wire(chk, events + cans)
    check_canaries(verdicts, cans)
    chk.notes["canaries_rejected"] = len(cans)
    for ev in events:
        c, info = meta[ev["id"]]
        cl = verdicts[ev["id"]]["clause"]
        chk.count(1, traces=1)
        chk.distinct(shape_key(c["schema"], c["root"]) + json.dumps(c["value"], sort_keys=True))
        if cl.startswith("glue:"):
            raise core.Machinery("random generator produced an out-of-range value: %s" % json.dumps(c)[:500])
        if cl != "ok":
            dev = classify_diff(c["schema"], c["root"], c["value"], info.get("decoded")) if cl == "rt:value" else cl
            chk.violation("serde.roundtrip:%s" % dev if dev.startswith("signed-minimum") else
                          "serde.roundtrip:%s:%s" % (feature(c["schema"], c["root"]), dev),
                          {"mode": "T", "schema_text": glue.schema_text(c["schema"]), "root": c["root"],
                           "value": c["value"], "observed": info, "clause": cl})
    chk.sample({"random_case": {"schema": glue.schema_text(rc[0]["schema"]), "root": rc[0]["root"], "value": rc[0]["value"]}})
    chk.coverage["exhaustive"] = False
    chk.assumptions += [
        "TLC exhaustiveness is over the bounded universe of WireGen (leaf pool, one constructor level, boundary values); "
        "beyond it the codec is sampled with the specification as judge",
        "float <-> IEEE word conversion is Python's struct module; NaNs other than none are outside the domain",
        "the generated FCP text is parsed by the real front end; glue only prints it"]
    return chk.finish(
        "cases = (schema, value) pairs emitted by TLC from MC_Wire (scopes %s) plus %d seeded random schemas x values judged by "
        "Trace_Wire; distinct = distinct (root struct shape with ids, value); non-trivial: every root has a field that is "
        "either a container or preceded by another field, or a boundary value" % (scopes, len(rc)))


# ---------------------------------------------------------------------- C02
def std_vector_events():
    """the project's cross-language vectors as enc+dec events (schemas parsed by the real front end)"""
    from . import absfcp
    return absfcp.standard_vectors()


def run_c02(tier, seed):
    chk = core.Check("C02", tier, seed, "model_checking")
    rng = random.Random(seed)
    cache = SchemaCache()
    # 0. the specification is pinned to the project's own vectors: a disagreement is OUR bug
    vec = std_vector_events()
    vv = trace_wire(chk, vec, "Trace_Wire[project vectors]")
    bad = [(e["id"], vv[e["id"]]["clause"]) for e in vec if vv[e["id"]]["clause"] != "ok"]
    if bad:
        raise core.Machinery("Wire specification disagrees with tests/standardized/fcp_tests.json: %s" % bad[:5])
    chk.notes["project_vectors_accepted"] = len(vec)
    scopes = ["quick", "alignq"] if tier == "quick" else ["quick", "align"]
    limit = {"quick": 9000, "alignq": 9000} if tier == "quick" else {}
    for scope in scopes:
        cases = mc_cases(chk, scope)
        chk.notes.setdefault("cases_emitted", {})[scope] = len(cases)
        if scope in limit and len(cases) > limit[scope]:
            rng.shuffle(cases)
            cases = cases[:limit[scope]]
        for c in cases:
            sch, root, val, canon = c["schema"], c["root"], c["value"], c["bytes"]
            fcp = cache.get(sch)
            chk.count(2, traces=2)
            chk.distinct(shape_key(sch, root) + json.dumps(val, sort_keys=True))
            st, enc = pycodec.encode(fcp, sch, root, val)
            if st != "ok" or enc != canon:
                chk.violation("serde.encode:%s:%s" % (feature(sch, root), "bytes-not-canonical" if st == "ok" else st),
                              {"mode": "G", "schema_text": glue.schema_text(sch), "root": root, "value": val,
                               "canonical": canon, "observed": enc})
            st2, dec = pycodec.decode(fcp, sch, root, canon)
            if st2 != "ok" or dec != val:
                dev = classify_diff(sch, root, val, dec) if st2 == "ok" else st2
                chk.violation("serde.decode:%s" % dev if dev.startswith("signed-minimum") else
                              "serde.decode:%s:%s" % (feature(sch, root), dev),
                              {"mode": "G", "schema_text": glue.schema_text(sch), "root": root, "value": val,
                               "canonical": canon, "decoded": dec})
            chk.sample({"schema": glue.schema_text(sch), "value": val, "canonical_bytes": canon})
    # (T) random: encode events judged by TLC, then decode of TLC's canonical bytes, judged again
    n_s, n_v = (150, 4) if tier == "quick" else (2500, 6)
    rc = random_cases(rng, n_s, n_v) + rpc_cases(chk, cache)
    events, meta = [], {}
    for i, c in enumerate(rc):
        fcp = cache.get(c["schema"])
        st, enc = pycodec.encode(fcp, c["schema"], c["root"], c["value"])
        ev = {"id": "e%d" % i, "kind": "enc", "schema": c["schema"], "root": c["root"], "value": c["value"],
              "ok": 1 if st == "ok" else 0, "bytes": enc if st == "ok" else []}
        events.append(ev)
        meta[ev["id"]] = (c, enc)
    cans = canaries(events, rng)
    verdicts = trace_wire(chk, events + cans)
    check_canaries(verdicts, cans)
    dec_events, dmeta = [], {}
    for ev in events:
        c, enc = meta[ev["id"]]
        v = verdicts[ev["id"]]
        chk.count(1, traces=1)
        chk.distinct(shape_key(c["schema"], c["root"]) + json.dumps(c["value"], sort_keys=True))
        if v["clause"].startswith("glue:"):
            raise core.Machinery("random generator produced an out-of-range value")
        if v["clause"] != "ok":
            chk.violation("serde.encode:%s:%s" % (feature(c["schema"], c["root"]), v["clause"]),
                          {"mode": "T", "schema_text": glue.schema_text(c["schema"]), "root": c["root"], "value": c["value"],
                           "canonical": v["canon"], "observed": enc})
        fcp = cache.get(c["schema"])
        st2, dec = pycodec.decode(fcp, c["schema"], c["root"], v["canon"])
        de = {"id": "d" + ev["id"], "kind": "dec", "schema": c["schema"], "root": c["root"], "bytes": v["canon"],
              "ok": 1 if st2 == "ok" else 0, "value": dec if st2 == "ok" else []}
        dec_events.append(de)
        dmeta[de["id"]] = (c, st2, dec)
    cans = canaries(dec_events, rng)
    dverd = trace_wire(chk, dec_events + cans)
    check_canaries(dverd, cans)
    chk.notes["canaries_rejected"] = chk.notes.get("canaries_rejected", 0) + len(cans)
    for de in dec_events:
        c, st2, dec = dmeta[de["id"]]
        chk.count(1, traces=1)
        cl = dverd[de["id"]]["clause"]
        if cl != "ok":
            dev = classify_diff(c["schema"], c["root"], c["value"], dec) if cl == "dec:value" else (cl if st2 in ("ok", "raised") else st2)
            chk.violation("serde.decode:%s" % dev if dev.startswith("signed-minimum") else
                          "serde.decode:%s:%s" % (feature(c["schema"], c["root"]), dev),
                          {"mode": "T", "schema_text": glue.schema_text(c["schema"]), "root": c["root"], "value": c["value"],
                           "canonical": de["bytes"], "decode_status": st2, "decoded": dec})
    chk.assumptions += [
        "the canonical format is the Wire specification; it is pinned to the project by requiring that TLC accepts all "
        "%d cross-language vectors of tests/standardized/fcp_tests.json (exit 2 otherwise)" % len(vec),
        "strings over 7-bit ASCII; floats exclude NaN payloads"]
    return chk.finish(
        "each case checks both directions (encode == canonical bytes from TLC; decode(canonical bytes) == value); cases from "
        "MC_Wire scopes %s, plus %d random cases judged by Trace_Wire; distinct = distinct (root shape, value)" % (scopes, len(rc)))


# ---------------------------------------------------------------------- C16
def set_bits(data, off, bits):
    data = list(data)
    for i, b in enumerate(bits):
        p = off + i
        while len(data) <= p >> 3:
            data.append(0)
        if b:
            data[p >> 3] |= 1 << (p & 7)
        else:
            data[p >> 3] &= ~(1 << (p & 7))
    return data


def run_c16(tier, seed):
    chk = core.Check("C16", tier, seed, "model_checking")
    rng = random.Random(seed)
    cache = SchemaCache()
    # (M) TruncErr / WorkBound are invariants of MC_Wire: every strict byte prefix drives the spec's decoder to err
    cases = mc_cases(chk, "quick")
    chk.notes["cases_emitted"] = len(cases)
    rng.shuffle(cases)
    ncase = 1200 if tier == "quick" else 12000
    cases = cases[:ncase]
    n_s, n_v = (60, 3) if tier == "quick" else (1200, 5)
    rc = random_cases(rng, n_s, n_v) + rpc_cases(chk, cache)
    # oracle: canonical bytes and count-prefix offsets of the random cases
    req = [{"id": "q%d" % i, "kind": "enc", "schema": c["schema"], "root": c["root"], "value": c["value"],
            "ok": 1, "bytes": []} for i, c in enumerate(rc)]
    ans = trace_wire(chk, req, "Trace_Wire[oracle]")
    for r, c in zip(req, rc):
        a = ans[r["id"]]
        if a["clause"].startswith("glue:"):
            raise core.Machinery("random generator produced an out-of-range value")
        c["bytes"] = a["canon"]
        c["counts"] = a["counts"]
    events, meta = [], {}
    big = [[1] * 32, [0] * 16 + [1] + [0] * 15, [0] * 31 + [1], [1] + [0] * 30 + [1]]  # 2^32-1, 2^16, 2^31, 2^31+1
    for ci, c in enumerate(cases + rc):
        sch, root, canon = c["schema"], c["root"], c["bytes"]
        fcp = cache.get(sch)
        inputs = [("trunc@%d" % k, canon[:k]) for k in range(len(canon))]
        for off in c["counts"]:
            cur = glue.bits_to_int([(canon[(off + i) >> 3] >> ((off + i) & 7)) & 1 for i in range(32)])
            for pat in big + [glue.int_to_bits(cur + 1, 32)]:
                d = set_bits(canon, off, pat)
                inputs.append(("count@%d=%d" % (off, glue.bits_to_int(pat)), d))
                inputs.append(("count@%d=%d,cut" % (off, glue.bits_to_int(pat)), d[:(off + 32 + 7) // 8]))
        if len(inputs) > 40:
            keep = inputs[:1] + rng.sample(inputs[1:], 39)
            inputs = keep
        for what, data in inputs:
            st, dec = pycodec.decode(fcp, sch, root, data, limit=5)
            eid = "t%d" % len(events)
            events.append({"id": eid, "kind": "dec", "schema": sch, "root": root, "bytes": data,
                           "ok": 1 if st in ("ok", "badvalue") else 0, "value": dec if st == "ok" else []})
            meta[eid] = (c, what, st, dec, data)
    verd = trace_wire(chk, events)
    judged = 0
    for e in events:
        c, what, st, dec, data = meta[e["id"]]
        v = verd[e["id"]]
        chk.count(1, traces=1)
        if v["parses"] == 1:
            continue     # still a decodable byte string: not C16's business
        judged += 1
        chk.distinct(shape_key(c["schema"], c["root"]) + what)
        if st in ("timeout", "memory", "recursion"):
            chk.violation("serde.decode:%s:unbounded-work-%s" % (feature(c["schema"], c["root"]), st),
                          {"schema_text": glue.schema_text(c["schema"]), "root": c["root"], "input": data, "what": what, "observed": dec})
        elif st != "raised":
            chk.violation("serde.decode:%s:value-from-missing-bytes" % feature(c["schema"], c["root"]),
                          {"schema_text": glue.schema_text(c["schema"]), "root": c["root"], "valid_encoding": c["bytes"],
                           "input": data, "what": what, "returned": dec})
        chk.sample({"schema": glue.schema_text(c["schema"]), "input_bytes": data, "what": what, "outcome": st})
    # canary: a *valid* encoding reported as "returned a value" must be accepted, and a truncated one reported as
    # returned must be rejected - otherwise Trace_Wire is not constraining anything
    c0 = (cases + rc)[0]
    probe = [{"id": "canary-a", "kind": "dec", "schema": c0["schema"], "root": c0["root"], "bytes": c0["bytes"][:-1],
              "ok": 1, "value": c0["value"]}]
    pv = trace_wire(chk, probe)
    if pv["canary-a"]["clause"] == "ok":
        raise core.Machinery("canary accepted: truncated input reported as decoded was not rejected")
    chk.notes["inputs_judged_as_overrun"] = judged
    chk.assumptions += ["only inputs on which the specification's parser overruns are judged",
                        "any Exception subclass counts as a decoding error; MemoryError, RecursionError and a 5 s wall-clock "
                        "limit per call count as unbounded work",
                        "array element types occupy at least one bit (zero-length fixed arrays are outside the domain)"]
    return chk.finish(
        "for %d TLC-emitted and %d random cases: every strict byte prefix of the canonical encoding and every count prefix "
        "overwritten with 2^32-1, 2^31, 2^31+1, 2^16, n+1 (with and without cutting the data behind it), at most 40 inputs per "
        "case; Trace_Wire (TLC) decides for each input whether the specification's parser overruns; distinct = (root shape, "
        "truncation point / corrupted count)" % (len(cases), len(rc)))
