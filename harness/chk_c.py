"""C06: generated C CAN code (fcp_can_c) against CFrame.tla."""
import json
import os
import random
import shutil
from concurrent.futures import ThreadPoolExecutor

from . import core, tlc, glue, randgen, cdriver
from .chk_wire import SchemaCache
from .chk_layout import abs_for_text, abs_for_tlc


def kinds_sig(st, names=None):
    ks = []
    for f in st["fields"]:
        if names is not None and f["name"] not in names:
            continue
        t = f["type"]
        if t["k"] in ("u", "i"):
            w = t["w"]
            cls = "std" if w in (8, 16, 32, 64) else ("lt64" if w > 32 else "short")
            ks.append("%s-%s" % (t["k"], cls))
        else:
            ks.append(t["k"])
    return "+".join(sorted(set(ks)))


def classify_fields(st, exp, got):
    """which fields differ, summarised by type class and whether the field sits at offset 0"""
    names = [f["name"] for f in st["fields"] if exp.get(f["name"]) != got.get(f["name"])]
    return kinds_sig(st, set(names))


def no_negzero(st, v):
    """C06 compares floats as C values: -0.0 == +0.0, so the sign-only pattern is kept out of the value domain"""
    for f in st["fields"]:
        if f["type"]["k"] in ("f32", "f64") and sum(v[f["name"]]) == 1 and v[f["name"]][-1] == 1:
            v[f["name"]] = [0] * len(v[f["name"]])
    return v


def build_and_run(job):
    """job: (sch, outdir, lines) -> dict"""
    sch, outdir, lines, cache_fcp = job
    shutil.rmtree(outdir, ignore_errors=True)
    os.makedirs(outdir)
    st, info = cdriver.generate_c(cache_fcp, outdir)
    if st != "ok":
        return {"status": "generate-raised", "info": info}
    st, exe = cdriver.build(sch, outdir)
    if st != "ok":
        return {"status": "compile-error", "info": exe}
    try:
        rc, out = cdriver.run_driver(exe, lines)
    except Exception as e:
        return {"status": "driver-timeout", "info": str(e)}
    shutil.rmtree(outdir, ignore_errors=True)
    return {"status": "ok", "rc": rc, "out": out}


def rename_enums(sch, ren):
    """the same schema with its enums renamed (a name is not part of the layout: nothing else may change)"""
    s = json.loads(json.dumps(sch))
    for e in s["enums"]:
        e["name"] = ren.get(e["name"], e["name"])

    def walk(t):
        if t["k"] == "enum":
            t["name"] = ren.get(t["name"], t["name"])
        if "t" in t:
            walk(t["t"])
    for st in s["structs"]:
        for f in st["fields"]:
            walk(f["type"])
    return s


# enum names that begin like the builtin type names (iN, uN, fNN)
ENUM_NAMES = ["inverter", "Eb", "ustate", "fmode", "i", "Id8"]


def rand_flat_schema(rng, nmsg):
    enums = [randgen.rand_enum(rng, n) for n in rng.sample(ENUM_NAMES, 3)]
    structs, impls = [], []
    # half of the schemas spread their messages over several devices (one generated pair of files each, linked together)
    devs = ["ecu"] if rng.random() < 0.5 else ["ecu", "bms", "dash"]
    for mi in range(nmsg):
        left = 64
        fields = []
        for fi in range(rng.randint(1, 8)):
            if left <= 0:
                break
            r = rng.random()
            if r < 0.12 and left >= 32:
                t, w = {"k": "f32"}, 32
            elif r < 0.17 and left >= 64:
                t, w = {"k": "f64"}, 64
            elif r < 0.3:
                e = rng.choice(enums)
                w = max(1, max(len(x["value"]["m"]) for x in e["items"]))
                if w > left:
                    continue
                t = {"k": "enum", "name": e["name"]}
            else:
                w = min(left, rng.choice([1, 2, 3, 5, 7, 8, 9, 12, 15, 16, 17, 24, 31, 32, 33, 40, 63, 64, rng.randint(1, 64)]))
                t = {"k": rng.choice("ui"), "w": w}
            left -= w
            fields.append({"name": randgen.NAMES_F[fi], "id": fi, "type": t})
        ids = rng.sample(range(20), len(fields))
        if rng.random() < 0.5:
            ids.sort()
        for f, i in zip(fields, ids):
            f["id"] = i
        name = "M%d" % mi
        structs.append({"name": name, "fields": fields})
        impls.append({"name": name, "protocol": "can", "type": name,
                      "fields": [{"name": "id", "value": {"i": rng.choice([0, 1, 2047, rng.randint(0, 2047)])}}] +
                                # a binding without a device belongs to the device "global"
                                ([{"name": "device", "value": {"s": rng.choice(devs)}}] if rng.random() < 0.85 else []), "signals": []})
        if rng.random() < 0.25:
            # the same struct bound a second time under another name and id
            impls.append({"name": name + "b", "protocol": "can", "type": name,
                          "fields": [{"name": "id", "value": {"i": rng.randint(0, 2047)}},
                                     {"name": "device", "value": {"s": rng.choice(devs)}}], "signals": []})
    return {"structs": structs, "enums": enums, "impls": impls}


def run_c06(tier, seed):
    chk = core.Check("C06", tier, seed, "model_checking")
    rng = random.Random(seed)
    cache = SchemaCache()
    res = tlc.run("MC_CFrame", workdir=chk.workdir, env={"C_EMIT": "1", "C_SCOPE": tier}, timeout=3000, heap="6g")
    chk.add_tlc(res, "MC_CFrame[%s]" % tier)
    schemas, cases = {}, {}
    for o in res.out:
        if o["kind"] == "schema":
            s = glue.strip_gen(o["schema"])
            s.pop("chunk", None)
            s = abs_for_text(s)
            if o["chunk"] % 2 == 1:
                s = rename_enums(s, {"Ea": "inverter", "Eb": "ustate", "Ec": "fmode", "Ed": "i", "Ez": "Id8"})
            schemas[o["chunk"]] = s
        else:
            cases.setdefault(o["chunk"], []).append(o)
    chunks = sorted(schemas)
    chk.notes["devices_emitted"] = len(chunks)
    chk.notes["cases_emitted"] = sum(len(v) for v in cases.values())
    limit = 24 if tier == "quick" else len(chunks)
    if len(chunks) > limit:
        rng.shuffle(chunks)
        chunks = chunks[:limit]
    jobs, jmeta = [], []
    for ci in chunks:
        sch = schemas[ci]
        cs = sorted(cases.get(ci, []), key=lambda c: json.dumps(c, sort_keys=True))
        lines = []
        for c in cs:
            st = glue.find(sch["structs"], c["impl"])
            lines.append("E %s %s" % (c["impl"], " ".join(cdriver.value_tokens(sch, st, c["value"]))))
            lines.append("D %s %s" % (c["impl"], "".join("%02x" % b for b in c["data"])))
        jobs.append((sch, os.path.join(chk.workdir, "c%d" % ci), lines, cache.get(sch)))
        jmeta.append((sch, cs))
    with ThreadPoolExecutor(max_workers=16) as ex:
        results = list(ex.map(build_and_run, jobs))
    for (sch, cs), r in zip(jmeta, results):
        text = glue.schema_text(sch)
        if r["status"] != "ok":
            chk.count(1)
            chk.violation("can_c:%s" % r["status"], {"mode": "G", "schema_text": text[:3000], "info": r["info"]})
            continue
        out = r["out"]
        for k, c in enumerate(cs):
            st = glue.find(sch["structs"], c["impl"])
            chk.count(2, traces=2)
            chk.distinct(json.dumps([st["fields"], c["value"]], sort_keys=True))
            le, ld = out[2 * k].split(), out[2 * k + 1].split()
            ctx = {"mode": "G", "struct": st, "value": c["value"], "expected_frame": {"id": c["id"], "dlc": c["dlc"], "data": c["data"]}}
            if not le or le[0] != "E" or not ld or ld[0] != "D":
                chk.violation("can_c:driver-crashed", dict(ctx, output=out[2 * k:2 * k + 2]))
                continue
            fid, dlc, data = int(le[1]), int(le[2]), [int(le[3][i:i + 2], 16) for i in range(0, 16, 2)]
            if fid != c["id"]:
                chk.violation("can_c.encode:id", dict(ctx, observed=le))
            elif dlc != c["dlc"]:
                chk.violation("can_c.encode:dlc", dict(ctx, observed=le))
            elif data != c["data"]:
                # which fields' bit ranges are wrong is not known here; classify by the fields of the message
                chk.violation("can_c.encode:data:%s" % kinds_sig(st), dict(ctx, observed_data=data))
            got = cdriver.parse_values(sch, st, ld[1:])
            if got != c["value"]:
                chk.violation("can_c.decode:value:%s" % classify_fields(st, c["value"], got),
                              dict(ctx, decoded_from_specified_frame=got))
        chk.sample({"schema": text[:600], "case": cs[0] if cs else None}, cap=2)
    # (T) random flat schemas with up to 8 signals: recorded calls judged by Trace_CFrame
    ndev, nmsg, nval = (6, 25, 4) if tier == "quick" else (80, 30, 6)
    jobs, jmeta = [], []
    for d in range(ndev):
        sch = rand_flat_schema(rng, nmsg)
        vals = []
        lines = []
        for im in sch["impls"]:
            st = glue.find(sch["structs"], im["type"])
            for _ in range(nval):
                v = no_negzero(st, randgen.rand_value(rng, sch, {"k": "struct", "name": st["name"]}))
                vals.append((im["name"], v))
                lines.append("E %s %s" % (im["name"], " ".join(cdriver.value_tokens(sch, st, v))))
        jobs.append((sch, os.path.join(chk.workdir, "r%d" % d), lines, cache.get(sch)))
        jmeta.append((sch, vals))
    with ThreadPoolExecutor(max_workers=16) as ex:
        results = list(ex.map(build_and_run, jobs))
    events, emeta = [], {}
    for di, ((sch, vals), r) in enumerate(zip(jmeta, results)):
        if r["status"] != "ok":
            chk.count(1)
            chk.violation("can_c:%s" % r["status"], {"mode": "T", "schema_text": glue.schema_text(sch)[:3000], "info": r["info"]})
            continue
        for k, (name, v) in enumerate(vals):
            st = glue.find(sch["structs"], glue.find(sch["impls"], name)["type"])
            le = r["out"][k].split()
            if not le or le[0] != "E":
                chk.violation("can_c:driver-crashed", {"mode": "T", "struct": st, "value": v, "output": r["out"][k]})
                continue
            bar = le.index("|")
            data = [int(le[3][i:i + 2], 16) for i in range(0, 16, 2)]
            own = cdriver.parse_values(sch, st, le[bar + 1:])
            eid = "e%d-%d" % (di, k)
            lean = {"structs": [st], "enums": sch["enums"], "impls": [glue.find(sch["impls"], name)]}
            events.append({"id": eid, "kind": "enc", "schema": lean, "impl": name, "value": v,
                           "fid": int(le[1]), "dlc": int(le[2]), "data": data})
            events.append({"id": "d" + eid, "kind": "dec", "schema": lean, "impl": name, "data": data, "value": own})
            emeta[eid] = (st, v, le)
            emeta["d" + eid] = (st, v, le)
    if events:
        cans = []
        for e in [e for e in events if e["kind"] == "enc"][:4]:
            c = json.loads(json.dumps(e))
            c["id"] = "canary-" + e["id"]
            c["data"][0] ^= 1
            cans.append(c)
        path = os.path.join(chk.workdir, "c-events.ndjson")
        with open(path, "w") as f:
            for e in events + cans:
                f.write(json.dumps(e) + "\n")
        tr = tlc.run("Trace_CFrame", workdir=chk.workdir, env={"TRACE_FILE": path}, timeout=2400, heap="4g")
        chk.add_tlc(tr, "Trace_CFrame[%d calls]" % len(events))
        verd = {v["id"]: v for v in tr.verdicts}
        for c in cans:
            if verd.get(c["id"], {"clause": "ok"})["clause"] == "ok":
                raise core.Machinery("canary accepted by Trace_CFrame")
        chk.notes["canaries_rejected"] = len(cans)
        for e in events:
            if e["id"] not in verd:
                raise core.Machinery("no verdict for %s" % e["id"])
            st, v, le = emeta[e["id"]]
            cl = verd[e["id"]]["clause"]
            chk.count(1, traces=1)
            chk.distinct(json.dumps([st["fields"], v], sort_keys=True))
            if cl.startswith("glue:"):
                raise core.Machinery("random flat schema left the C subset: %s" % json.dumps(st))
            if cl != "ok":
                if e["kind"] == "enc":
                    chk.violation("can_c.encode:%s:%s" % (cl.split(":")[1], kinds_sig(st)),
                                  {"mode": "T", "struct": st, "value": v, "observed": le, "specified": verd[e["id"]]["frame"]})
                else:
                    chk.violation("can_c.decode:value:%s" % kinds_sig(st),
                                  {"mode": "T", "struct": st, "value_encoded": v, "observed": le})
    chk.assumptions += ["float values are compared as C values: the sign-only pattern -0.0 is outside the value domain "
                        "(the generated decoder computes 1.0 * x + 0.0, which maps -0.0 to +0.0; numerically equal)",
                        "'compiles' = gcc -std=gnu11 -w exits 0", "message / device names are single capitalised words so that the "
                        "generator's snake/pascal case mapping is the identity up to case",
                        "enumerator names are unique across enums (the generated global header puts them in one C namespace)"]
    return chk.finish(
        "(M) MC_CFrame: RoundTrip, DlcOk, AgreesWithDbc over every flat message of 1..3 signals from the kind pool that fits 64 bits "
        "x boundary values; (G) %d of %d generated devices (40 messages each) compiled with gcc and every emitted case run through "
        "can_encode_msg / can_decode_msg (decoder fed the SPECIFIED frame); (T) %d random devices x %d messages of 1..8 signals x "
        "%d values judged by Trace_CFrame; distinct = (message shape, value)" % (len(chunks), chk.notes["devices_emitted"], ndev, nmsg, nval))
