"""C11: the parser is total (Mutate.tla: ParseOutcome protocol)."""
import json
import os
import random
import re

from . import core, tlc, glue, pycodec

glue.setup_repo_path()

_ANSI = re.compile(r"\x1b\[[0-9;]*m")
_CITE = re.compile(r"\[([^\[\]\s:]+\.fcp):(-?\d+)\]")
_GUTTER = re.compile(r"^\s*(-?\d+) \|", re.M)


def observe(text, cwd=None, logger=None, path=None):
    """one get_fcp_from_string call -> event fields.  logger: a Logger shared by a whole session of calls (the sources
    judged are then the CURRENT text, whatever the logger remembers from earlier calls)"""
    from fcp.parser import get_fcp_from_string, get_fcp
    from fcp.error import Logger
    session = logger is not None
    if logger is None:
        logger = Logger({})
    ev = {"outcome": "ok", "rendered": 0, "citations": [], "sources": [], "detail": ""}
    try:
        if path is not None:
            # the file entry point: the text is written to <path> and loaded with get_fcp
            with open(path, "w", newline="", encoding="utf-8", errors="surrogatepass") as f:
                f.write(text)
            r = pycodec.with_timeout(20, get_fcp, path, logger)
        else:
            r = pycodec.with_timeout(20, get_fcp_from_string, text, logger)
    except pycodec.CallTimeout:
        ev["outcome"] = "timeout"
        return ev
    except BaseException as e:
        ev["outcome"] = "raised"
        ev["detail"] = "%s: %s" % (type(e).__name__, str(e)[:200])
        return ev
    try:
        is_err = r.is_err()
    except Exception as e:
        ev["outcome"] = "raised"
        ev["detail"] = "returned neither Ok nor Err: %r" % (r,)
        return ev
    if not is_err:
        return ev
    ev["outcome"] = "err"
    try:
        s = logger.error(r.err())
        if isinstance(s, str):
            ev["rendered"] = 1
            plain = _ANSI.sub("", s)
            ev["citations"] = [{"file": f, "line": int(l)} for f, l in _CITE.findall(plain)]
            ev["gutters"] = [int(x) for x in _GUTTER.findall(plain)]
            ev["detail"] = plain[:400]
    except Exception as e:
        ev["detail"] = "render raised %s: %s" % (type(e).__name__, str(e)[:200])
    ev["sources"] = [{"name": n, "lines": len(src.split("\n"))} for n, src in logger.sources.items()]
    if session:
        ev["sources"] = [{"name": "main.fcp", "lines": len(text.split("\n"))}] + [x for x in ev["sources"] if x["name"] != "main.fcp"]
    # a citation names a file by its base name; several registered sources may share it (same-named modules in different
    # directories, and every module is registered under its bare name too): the cited line must exist in one of them
    by_base = {}
    for x in ev["sources"]:
        b = os.path.basename(x["name"])
        by_base[b] = max(by_base.get(b, 0), x["lines"])
    ev["sources"] = [{"name": b, "lines": n} for b, n in sorted(by_base.items())]
    mx = max([s["lines"] for s in ev["sources"]], default=0)
    # a gutter line number belongs to the node cited just before it; it must at least exist in some source
    for g in ev.pop("gutters", []):
        if not (1 <= g <= mx):
            ev["citations"].append({"file": "<gutter>", "line": g})
    return ev


def _file_safe(text):
    """texts that read back from a file exactly as written (no CR: universal newlines; no lone surrogates: not UTF-8)"""
    return "\r" not in text and not any(0xd800 <= ord(c) <= 0xdfff for c in text)


def rand_text(rng, seeds):
    r = rng.random()
    if r < 0.3:
        n = rng.randint(0, 200)
        alphabet = "abc {}[]():;,@|=.\"\n\t/*-0123456789uiUIstructenumimplOptional"
        return "".join(rng.choice(alphabet) for _ in range(n))
    if r < 0.45:
        return "".join(chr(rng.choice([0, 1, 9, 10, 13, 27, 127, 0x85, 0x92, 160, 0x3b1, 0xe000, 0xfffe, 0x1f600, rng.randint(32, 126), rng.randint(0x80, 0x2fff)])) for _ in range(rng.randint(0, 80)))
    if r < 0.55:
        return 'version: "3"\n' + "struct S { a @0: u8, }\n" * rng.randint(0, 3) + "x" * rng.choice([1, 1000, 20000])
    # multi-mutation of a seed at character level
    s = list(rng.choice(seeds))
    for _ in range(rng.randint(1, 4)):
        if not s:
            break
        i = rng.randrange(len(s))
        op = rng.random()
        if op < 0.3:
            del s[i]
        elif op < 0.6:
            s.insert(i, rng.choice(list('{}[]():;,@|="') + ["\n", " ", "\x00", "é"]))
        elif op < 0.8:
            s[i] = rng.choice("abcxyz0123456789-.\"")
        else:
            j = rng.randrange(len(s))
            s[i], s[j] = s[j], s[i]
    return "".join(s)


def run_c11(tier, seed):
    chk = core.Check("C11", tier, seed, "exploration")
    rng = random.Random(seed)
    res = tlc.run("Gen_Mutate", workdir=chk.workdir, env={"SYN_SCOPE": "quick", "MUT_SCOPE": tier}, timeout=3000, heap="8g")
    chk.add_tlc(res, "Gen_Mutate[%s]" % tier)
    texts = sorted(res.out, key=lambda o: (o["kind"], o["text"]))
    chk.notes["texts_emitted"] = len(texts)
    by_kind = {}
    for o in texts:
        by_kind.setdefault(o["kind"], []).append(o["text"])
    chk.notes["mutation_kinds"] = {k: len(v) for k, v in by_kind.items()}
    seeds = by_kind.get("unmutated", [])
    inputs = []
    per = {"quick": 450, "thorough": 10 ** 9}[tier]
    for k in sorted(by_kind):
        lst = by_kind[k]
        if len(lst) > per:
            lst = rng.sample(lst, per)
        inputs += [(k, t) for t in lst]
    # every character prefix of the unmutated seeds (quick: every 3rd)
    step = 3 if tier == "quick" else 1
    for s in seeds[:6 if tier == "quick" else len(seeds)]:
        for n in range(0, len(s), step):
            inputs.append(("char-prefix", s[:n]))
    # the same with comments that contain CR / FF (line boundaries for str.splitlines, not for FCP), also without final newline
    for s in by_kind.get("unmutated-xc", [])[:3 if tier == "quick" else 100]:
        for n in range(0, len(s), step + 1):
            inputs.append(("char-prefix-xc", s[:n]))
            inputs.append(("char-prefix-xc", s[:n] + "\u2028"))
    # one stray character of every kind of code point (C0/C1 controls, format characters, combining marks, private use,
    # noncharacters, unassigned, a lone surrogate, astral planes ...) at several places of a well-formed text
    STRAY = [0x00, 0x07, 0x1b, 0x7f, 0x80, 0x85, 0x92, 0x9f, 0xa0, 0xad, 0x301, 0x378, 0x200b, 0x200f, 0x2028, 0x2029, 0x202e,
             0xd800, 0xdfff, 0xe000, 0xf8ff, 0xfdd0, 0xfeff, 0xfffe, 0xffff, 0xff21, 0x1f600, 0x2fffe, 0xe0001, 0xf0000, 0x10fffd, 0x10ffff]
    for s in (seeds[:2] if tier == "quick" else seeds[:8]):
        cuts = sorted({0, s.find("\n") + 1, s.find("{") + 1, len(s) // 2, max(0, s.rfind("}")), len(s)})
        for cp in STRAY:
            for n in cuts:
                inputs.append(("stray-char", s[:n] + chr(cp) + s[n:]))
                inputs.append(("stray-char", s[:n] + chr(cp)))
    nrand = 600 if tier == "quick" else 20000
    for _ in range(nrand):
        inputs.append(("random", rand_text(rng, seeds or ['version: "3"\n'])))
    events, meta = [], {}
    cwd = os.getcwd()
    os.makedirs(os.path.join(chk.workdir, "a"), exist_ok=True)     # the module the `mod a.b;` seed imports
    with open(os.path.join(chk.workdir, "a", "b.fcp"), "w") as f:
        f.write('version: "3"\n\nstruct Imported {\n    v @0: u8,\n}\n')
    # import chains of depth 1..3 (main -> c<k>d<n>/m1 -> m2 -> m3) with a fault in the DEEPEST module: the error comes back through
    # every importer and must still be renderable by the caller's logger
    FAULTS = ['struct Broken { q @', 'struct Broken {\n    q @0: u8,\n', 'struct Late { q @0: Nowhere, }', 'struct Odd { q @0.5: u8, }',
              'enum Odd { }', 'struct Odd { q @0: u8 | nosuch("C"), }', 'enum Odd { Kelvin = "K", }', 'struct Odd { q @0: u8 | range(1), }',
              'struct Fine { q @0: u8, }']
    for k, fault in enumerate(FAULTS):
        for depth in (1, 2, 3):
            d = os.path.join(chk.workdir, "c%dd%d" % (k, depth))
            os.makedirs(d, exist_ok=True)
            for lvl in range(1, depth + 1):
                with open(os.path.join(d, "m%d.fcp" % lvl), "w") as f:
                    body = ("mod m%d;\n" % (lvl + 1)) if lvl < depth else fault + "\n"
                    f.write('version: "3"\n\nstruct L%d { v @0: u8, }\n%s' % (lvl, body))
            inputs.append(("module-chain-depth-%d" % depth, 'version: "3"\nmod c%dd%d.m1;\nstruct T { a @0: u8, }\n' % (k, depth)))
    # two imported modules with the SAME file name in different directories, the fault in the one imported first / second
    for k, fault in enumerate(FAULTS):
        for which in (0, 1):
            d = os.path.join(chk.workdir, "s%dw%d" % (k, which))
            for sub, bad in (("pa", which == 0), ("pb", which == 1)):
                os.makedirs(os.path.join(d, sub), exist_ok=True)
                with open(os.path.join(d, sub, "types.fcp"), "w") as f:
                    f.write('version: "3"\n\n// %s\n%sstruct K%s { v @0: u8, }\n%s\n'
                            % (sub, "\n" * (3 if sub == "pa" else 0), sub, fault if bad else ""))
            inputs.append(("module-same-name-%s" % ("first" if which == 0 else "second"),
                           'version: "3"\nmod s%dw%d.pa.types;\nmod s%dw%d.pb.types;\nstruct T { a @0: u8, }\n' % (k, which, k, which)))
    # parameters and literals of the wrong KIND in every place that takes one (numbers, strings, arrays, identifiers)
    LITS = ['1', '1.5', '-3', '"V"', '["V"]', '[1, 2]', 'abc', '[]', '[["x"]]', '""']
    for lit in LITS:
        for tmpl in ('struct Odd { q @0: u8 | unit(%s), }', 'struct Odd { q @0: u8 | range(%s, 5), }', 'struct Odd { q @0: u8 | range(0, %s), }',
                     'struct Odd { q @%s: u8, }', 'enum Odd { A = %s, }', 'struct Odd { q @0: [u8, %s], }',
                     'struct S { a @0: u8, }\nservice Svc @%s { method m(S) @0 returns S, }',
                     'struct S { a @0: u8, }\nservice Svc @1 { method m(S) @%s returns S, }',
                     'struct Odd { q @0: u8 | unit(%s, %s), }', 'struct Odd { q @0: u8 | unit(%s) | unit(%s), }'):
            inputs.append(("literal-kind", 'version: "3"\n' + tmpl.replace("%s", lit) + "\n"))
    # type expressions nested far beyond any recursion limit, closed and unclosed
    for n in (100, 400, 1500, 6000):
        inputs.append(("deep-nesting", 'version: "3"\nstruct A { a @0: ' + "[" * n + "u8" + ", 2]" * n + ", }\n"))
        inputs.append(("deep-nesting", 'version: "3"\nstruct A { a @0: ' + "Optional[" * n + "u8" + "]" * (n // 2)))
    # a module with the SAME file name as the schema that imports it, and an error in the schema after the import
    for k, fault in enumerate(FAULTS):
        d = os.path.join(chk.workdir, "r%d" % k, "sub")
        os.makedirs(d, exist_ok=True)
        with open(os.path.join(d, "main.fcp"), "w") as f:
            f.write('version: "3"\n\nstruct Inner%d { v @0: u8, }\n' % k)
        inputs.append(("module-named-like-root", 'version: "3"\nmod r%d.sub.main;\n\n\n\n\n%s\n' % (k, fault)))
    os.chdir(chk.workdir)       # `mod` paths of in-memory sources resolve against the cwd
    try:
        from fcp.error import Logger
        shared = None
        rng.shuffle(inputs)           # sessions then mix short and long texts
        for i, (kind, text) in enumerate(inputs):
            # every third input belongs to a session of 25 calls that share one Logger, as a long-lived tool would
            if kind.startswith("module-") or (i % 10 == 1 and _file_safe(text)):
                ev = observe(text, path=os.path.join(chk.workdir, "main.fcp"))
                kind = kind + "/file-entry"
            elif i % 3 == 0:
                if shared is None or i % 75 == 0:
                    shared = Logger({})
                ev = observe(text, logger=shared)
                kind = kind + "/shared-logger"
            else:
                ev = observe(text)
            ev["id"] = "p%d" % i
            detail = ev.pop("detail")
            events.append(ev)
            meta[ev["id"]] = (kind, text, detail)
    finally:
        os.chdir(cwd)
    # the `fcp encode` command loads two files (the reflection schema and a schema to describe) with ONE logger: a faulty first file
    # and a second file of the same name in another directory - the command must still print a diagnostic, not raise
    try:
        from click.testing import CliRunner
        from fcp.__main__ import encode as encode_cmd
        for k, fault in enumerate(FAULTS[:-1]):
            for which in ("schema", "data"):
                da, db = os.path.join(chk.workdir, "enc%d%s" % (k, which), "a"), os.path.join(chk.workdir, "enc%d%s" % (k, which), "b")
                os.makedirs(da, exist_ok=True)
                os.makedirs(db, exist_ok=True)
                bad = 'version: "3"\n\n\n\n\n\n\n\n\n\n\n\nstruct Fcp { v @0: u8, }\n' + fault + "\n"
                good = 'version: "3"\nstruct Fcp { v @0: u8, }\n'
                with open(os.path.join(da, "vehicle.fcp"), "w") as f:
                    f.write(bad if which == "schema" else good)
                with open(os.path.join(db, "vehicle.fcp"), "w") as f:
                    f.write(good if which == "schema" else bad)
                res = CliRunner().invoke(encode_cmd, [os.path.join(da, "vehicle.fcp"), os.path.join(db, "vehicle.fcp"),
                                                      os.path.join(chk.workdir, "enc.bin")])
                chk.count(1, traces=1)
                if res.exception is not None and not isinstance(res.exception, SystemExit):
                    chk.violation("parser:exception-escaped:encode-command:%s" % type(res.exception).__name__,
                                  {"input_kind": "encode command, faulty %s file, both files called vehicle.fcp" % which, "fault": fault,
                                   "exception": "%s: %s" % (type(res.exception).__name__, str(res.exception)[:200])})
    except ImportError:
        pass
    cans = [{"id": "canary-raised", "outcome": "raised", "rendered": 0, "citations": [], "sources": []},
            {"id": "canary-cite", "outcome": "err", "rendered": 1, "citations": [{"file": "main.fcp", "line": 99}],
             "sources": [{"name": "main.fcp", "lines": 3}]},
            {"id": "canary-norender", "outcome": "err", "rendered": 0, "citations": [], "sources": []}]
    path = os.path.join(chk.workdir, "parse-events.ndjson")
    with open(path, "w") as f:
        for e in events + cans:
            f.write(json.dumps(e) + "\n")
    tr = tlc.run("Trace_Parse", workdir=chk.workdir, env={"TRACE_FILE": path}, timeout=3000, heap="4g")
    chk.add_tlc(tr, "Trace_Parse[%d calls]" % len(events))
    verd = {v["id"]: v["clause"] for v in tr.verdicts}
    for c in cans:
        if verd.get(c["id"], "ok") == "ok":
            raise core.Machinery("canary accepted by Trace_Parse: %s" % c["id"])
    outcomes = {}
    for e in events:
        if e["id"] not in verd:
            raise core.Machinery("no verdict for %s" % e["id"])
        kind, text, detail = meta[e["id"]]
        outcomes[e["outcome"]] = outcomes.get(e["outcome"], 0) + 1
        chk.count(1, traces=1)
        chk.distinct(text)
        cl = verd[e["id"]]
        # (the in-memory entry point cannot read module files: seeds with `mod` legitimately return an error)
        if kind in ("unmutated", "unmutated-xc") and e["outcome"] != "ok" and " mod " not in text and "mod" not in text.split(";")[0][-40:]:
            chk.violation("parser:rejected-well-formed-seed", {"text": text, "outcome": e["outcome"], "detail": detail})
        if cl != "ok":
            exc = detail.split(":")[0] if e["outcome"] == "raised" else ""
            chk.violation("parser:%s:%s%s" % (cl, kind, (":" + exc) if exc else ""),
                          {"input_kind": kind, "text": text[:2000], "outcome": e["outcome"], "detail": detail,
                           "citations": e["citations"], "sources": e["sources"]})
        chk.sample({"kind": kind, "text": text[:300], "outcome": e["outcome"], "diagnostic": detail[:300]}, cap=3)
    chk.notes["outcomes"] = outcomes
    chk.assumptions += ["'exception escapes' = anything propagating out of get_fcp_from_string (lark's included); 20 s per call as the "
                        "termination limit", "citations checked: [<name>.fcp:<line>] references and `<line> |` gutters against the sources "
                        "registered in the logger; references to Python files are ignored"]
    return chk.finish(
        "inputs: every single-token delete / duplicate / adjacent swap / replacement by a %d-token vocabulary (quick: a quarter), every "
        "token prefix, the out-of-domain substitutions (float id, string/float enum value, unknown parameter, parameter arity, empty "
        "enum, float array size, bad version) of %d seeds printed by the TLA+ printer (quick: <= %d per kind), every character prefix of "
        "the seeds, %d random / multi-mutated texts (unicode, NULs, long lines); each call's outcome validated by Trace_Parse; "
        "distinct = distinct text" % (31, len(seeds), per, nrand))
