"""RPC (extension, not one of the listed properties): the generated C++ service classes against RpcProto.tla.

(M) MC_RpcProto: the machine on small nets - under which calling discipline a caller gets the answer to ITS request
    (Correct, NoBroken, every request eventually answered), and the refutations without it;
(G) Gen_RpcProto: every behaviour up to a depth on four nets replayed into the real <S>Proxy / <S>Broker objects,
    observable state after the last step compared with the specification's;
(T) random long executions of the real objects recorded step by step and validated by Trace_RpcProto."""
import json
import os
import random
import shutil

from . import core, tlc, cppdriver, rpcdriver

HOLDS = ["p2p-client", "bus-global-1", "bus-client-1", "twin-global", "twinc-global"]
HOLDS_THOROUGH = ["bus-global", "bus-client", "fan-client"]
REFUTED = ["p2p-none", "twin-client", "twinc-client"]
NETS = {"quick": [("p2p", 5), ("bus", 4), ("twin", 4), ("twinc", 3), ("fan", 3)],
        "thorough": [("p2p", 6), ("bus", 5), ("twin", 5), ("twinc", 4), ("fan", 4)]}


def actions_of(net):
    svc = {s["name"]: s for s in net["services"]}
    acts = []
    for c in net["clients"]:
        for m in svc[c["svc"]]["methods"]:
            for x in net["seeds"]:
                acts.append({"a": "call", "p": c["name"], "m": m["name"], "x": x})
        acts.append({"a": "cstep", "p": c["name"], "m": "", "x": 0})
    for b in net["brokers"]:
        acts.append({"a": "bstep", "p": b["name"], "m": "", "x": 0})
    return acts


def run_rpc(tier, seed):
    chk = core.Check("RPC", tier, seed, "model_checking", ext=True)
    rng = random.Random(seed)
    # ---- (M)
    design = {}
    for n in HOLDS + (HOLDS_THOROUGH if tier != "quick" else []):
        r = tlc.run("MC_RpcProto", workdir=chk.workdir, env={"RPC_NET": n}, timeout=3000, heap="4g")
        chk.add_tlc(r, "MC_RpcProto[%s]" % n)
        design[n] = "Correct, NoBroken, OneWaiter and 'every request is eventually answered' hold (%d states)" % r.states
    for n in REFUTED:
        r = tlc.run("MC_RpcProto", "MC_RpcProto_refute.cfg", workdir=chk.workdir, env={"RPC_NET": n}, timeout=3000, heap="4g",
                    allow_violation=True)
        chk.add_tlc(r, "MC_RpcProto[%s]" % n)
        if r.invariant_violated != "Correct":
            raise core.Machinery("MC_RpcProto[%s]: expected a counterexample to Correct, got %r" % (n, r.invariant_violated))
        design[n] = "Correct is refuted (a caller receives the answer to another request); OneWaiter holds"
    chk.notes["design_results"] = design
    # ---- (G) and (T), one compiled program per net
    wrong = 0
    for which, depth in NETS[tier]:
        res = tlc.run("Gen_RpcProto", workdir=chk.workdir, env={"RPC_NET": which, "RPC_DEPTH": str(depth)}, timeout=3000, heap="6g")
        chk.add_tlc(res, "Gen_RpcProto[%s,%d]" % (which, depth))
        net = [o for o in res.out if o["kind"] == "net"][0]["net"]
        hists = sorted((o for o in res.out if o["kind"] == "hist"), key=lambda o: json.dumps(o["hist"], sort_keys=True))
        out = os.path.join(chk.workdir, "rpc-" + which)
        st, exe, text = rpcdriver.build(net, out)
        chk.count(1)
        if st != "ok":
            chk.violation("rpc:%s:%s" % (st, which), {"net": net, "schema_text": text, "info": exe})
            continue
        lines, ends = [], []
        for h in hists:
            lines.append("RESET")
            lines += [rpcdriver.command(e) for e in h["hist"]]
            ends.append(len(lines) - 1)
        ans = cppdriver.run(exe, lines)
        for h, e in zip(hists, ends):
            chk.count(1, traces=1)
            chk.distinct(which + json.dumps(h["hist"]))
            got = rpcdriver.parse_obs(ans[e]) if e < len(ans) else {"missing": 1}
            wrong += 0 if h["correct"] else 1
            if got != h["obs"]:
                what = "exception" if "exception" in got else "receive-queues-differ" if got.get("inbox") != h["obs"]["inbox"] else "futures-differ"
                chk.violation("rpc.replay:%s:%s" % (which, what),
                              {"mode": "G", "net": which, "schema_text": text, "history": h["hist"], "specified": h["obs"], "observed": got})
        chk.sample({"net": which, "history": hists[len(hists) // 2]["hist"], "specified_observation": hists[len(hists) // 2]["obs"]}, cap=4)
        # (T) random executions of the real objects
        acts = actions_of(net)
        ntr, length = (30, 60) if tier == "quick" else (300, 150)
        traces = []
        lines = []
        for t in range(ntr):
            # biased towards steps once queues fill, so that long runs keep draining
            evs = [rng.choice(acts) if rng.random() < 0.5 else rng.choice([a for a in acts if a["a"] != "call"]) for _ in range(length)]
            traces.append(evs)
            lines.append("RESET")
            lines += [rpcdriver.command(e) for e in evs]
        ans = cppdriver.run(exe, lines)
        recs, k = [], 0
        tnet = dict(net, maxcalls=100000, discipline="none")
        for t, evs in enumerate(traces):
            k += 1
            events = []
            for e in evs:
                events.append(dict(e, obs=rpcdriver.parse_obs(ans[k]) if k < len(ans) else {"missing": 1}))
                k += 1
            recs.append({"id": "%s-%d" % (which, t), "net": tnet, "events": events})
        bad_shape = [r for r in recs if any("inbox" not in e["obs"] for e in r["events"])]
        for r in bad_shape:
            e = [e for e in r["events"] if "inbox" not in e["obs"]][0]
            chk.violation("rpc.trace:%s:driver-%s" % (which, "exception" if "exception" in e["obs"] else "no-answer"),
                          {"mode": "T", "net": which, "schema_text": text, "event": e})
        recs = [r for r in recs if r not in bad_shape]
        # canaries: one payload value / one future changed in a recorded observation
        cans = []
        for r in recs[:6]:
            c = json.loads(json.dumps(r))
            c["id"] = "canary-" + r["id"]
            done = False
            for e in c["events"]:
                for p, q in e["obs"]["inbox"].items():
                    if q and not done:
                        q[0]["n"] = (q[0]["n"] + 1) % 8
                        done = True
            if done:
                cans.append(c)
        path = os.path.join(chk.workdir, "rpc-traces.ndjson")
        with open(path, "w") as f:
            for r in recs + cans:
                f.write(json.dumps(r) + "\n")
        tr = tlc.run("Trace_RpcProto", workdir=chk.workdir, env={"TRACE_FILE": path}, timeout=3000, heap="4g")
        chk.add_tlc(tr, "Trace_RpcProto[%s, %d traces x %d events]" % (which, len(recs), length))
        verd = {v["id"]: v for v in tr.verdicts}
        for c in cans:
            if verd.get(c["id"], {"clause": "ok"})["clause"] == "ok":
                raise core.Machinery("canary accepted by Trace_RpcProto")
        for r in recs:
            if r["id"] not in verd:
                raise core.Machinery("no verdict for %s" % r["id"])
            v = verd[r["id"]]
            chk.count(len(r["events"]), traces=1)
            if v["clause"] != "ok":
                chk.violation("rpc.trace:%s:%s" % (which, v["clause"]),
                              {"mode": "T", "net": which, "schema_text": text, "at_event": v["at"], "event": r["events"][v["at"] - 1],
                               "events_before": r["events"][max(0, v["at"] - 6):v["at"] - 1], "specified": v["expected"]})
        shutil.rmtree(out, ignore_errors=True)
    chk.notes["replayed_histories_where_the_design_gives_a_wrong_answer"] = wrong
    chk.assumptions += ["the transport carries only rpc wrappers (a plain struct on the same transport makes Proxy::Step throw on the "
                        "missing service_id key: not modelled)", "brokers are constructed with the service id the schema declares",
                        "payloads are abstracted to their first field (u8, values 0..7); the service implementation is H(m, x) = (x + id(m) + 1) mod 8"]
    return chk.finish(
        "(M) RpcProto on 2-4 participants: Correct/NoBroken/liveness under the disciplines that make them true, refutation of Correct "
        "without; (G) every behaviour of the machine up to the depths %s (net, depth) replayed into the generated C++ Proxy/Broker classes "
        "(in-memory transport with the net's links), final observable state compared; (T) random executions of the real objects "
        "validated event by event by Trace_RpcProto; distinct = distinct history" % (NETS[tier],))
