"""Seeded random abstract schemas and in-range values (inputs only; every
expectation about them comes from TLC)."""
from .glue import int_to_abs, f32_to_bits, f64_to_bits, int_to_bits
import struct

NAMES_S = ["Sa", "Sb", "Sc", "Sd", "Se", "Sf"]
NAMES_E = ["Ea", "Eb", "Ec"]
NAMES_F = ["fa", "fb", "fc", "fd", "fe", "ff", "fg", "fh"]


def rand_enum(rng, name, maxbits=None, wide=False):
    n = rng.randint(1, 4)
    bits = maxbits or rng.choice([1, 1, 2, 3, 4, 5, 7, 8])
    if wide and rng.random() < 0.25:
        # flag-mask style enums: the largest enumerator near a power of two far beyond 8 bits (width computations in floating
        # point go wrong from 2^49 on)
        bits = rng.choice([9, 16, 24, 31, 32, 33, 48, 49, 50, 51, 52, 53, 54, 56, 60, 63, 64])
    vals = set()
    top = rng.randint(1 << (bits - 1), (1 << bits) - 1) if bits > 1 else rng.choice([0, 1])
    if bits > 8:
        top = rng.choice([1 << (bits - 1), (1 << (bits - 1)) + 1, (1 << bits) - 1, (1 << bits) - 2, top])
    vals.add(top)
    n = min(n, top + 1)
    while len(vals) < n:
        vals.add(rng.randint(0, top))
    vals = list(vals)
    rng.shuffle(vals)
    return {"name": name, "items": [{"name": "X%s%d" % (name[1:], i), "value": int_to_abs(v)}
                                     for i, v in enumerate(vals)]}


def rand_scalar(rng, enums, allow_str=True):
    r = rng.random()
    if r < 0.35:
        return {"k": "u", "w": rng.choice([1, 2, 3, 5, 7, 8, 9, 12, 16, 24, 31, 32, 33, 48, 63, 64, rng.randint(1, 64)])}
    if r < 0.6:
        return {"k": "i", "w": rng.choice([1, 2, 3, 5, 7, 8, 9, 12, 16, 24, 31, 32, 33, 48, 63, 64, rng.randint(1, 64)])}
    if r < 0.7:
        return {"k": "f32"}
    if r < 0.8:
        return {"k": "f64"}
    if r < 0.9 and enums:
        return {"k": "enum", "name": rng.choice(enums)["name"]}
    if allow_str:
        return {"k": "str"}
    return {"k": "u", "w": 8}


def rand_type(rng, enums, structs, depth, fixed=False):
    """fixed: only fixed-size types (packed CAN layout domain)"""
    r = rng.random()
    if depth <= 0 or r < 0.45:
        return rand_scalar(rng, enums, allow_str=not fixed)
    if r < 0.6:
        return {"k": "arr", "t": rand_type(rng, enums, structs, depth - 1, fixed), "n": rng.randint(1, 4)}
    if r < 0.72 and not fixed:
        return {"k": "dyn", "t": rand_type(rng, enums, structs, depth - 1, fixed)}
    if r < 0.84 and not fixed:
        return {"k": "opt", "t": rand_type(rng, enums, structs, depth - 1, fixed)}
    if structs:
        return {"k": "struct", "name": rng.choice(structs)["name"]}
    return rand_scalar(rng, enums, allow_str=not fixed)


def rand_schema(rng, depth=3, nstructs=None, fixed=False, maxfields=5, wide_enums=False):
    # wide_enums: enumerators beyond 8 bits, up to 2^64-1 (the Python codec only: reflection and the C++ run-time schema hold
    # enumerator values as i32)
    enums = [rand_enum(rng, n, wide=wide_enums) for n in NAMES_E[:rng.randint(1, 3)]]
    structs = []
    ns = nstructs or rng.randint(1, 4)
    for si in range(ns):
        nf = rng.randint(1, maxfields)
        ids = rng.sample(range(0, 12), nf)
        if wide_enums and nf >= 2 and rng.random() < 0.15:
            # two fields sharing one id (no check forbids it): ties are serialized in declaration order
            a, b = rng.sample(range(nf), 2)
            ids[b] = ids[a]
        fields = []
        for fi in range(nf):
            fields.append({"name": NAMES_F[fi], "id": ids[fi],
                           "type": rand_type(rng, enums, structs, depth, fixed)})
        structs.append({"name": NAMES_S[si], "fields": fields})
    return {"structs": structs, "enums": enums}


BOUNDARY_F32 = [0.0, -0.0, 1.0, -1.0, float("inf"), float("-inf"), 1.401298464324817e-45,
                3.4028234663852886e+38, 0.5, -2.5]
BOUNDARY_F64 = [0.0, -0.0, 1.0, -1.0, float("inf"), float("-inf"), 5e-324,
                1.7976931348623157e+308, 0.1, -2.5e-300]


# NaNs with a sign and a payload: only where the value never leaves Python floats (the Python codec legs); f32 patterns are quiet
# NaNs, which survive the float <-> double conversions bit for bit
NAN_OK = False
NAN_F32 = [0x7fc00000, 0xffc00000, 0x7fc00001, 0xffffffff, 0x7fd55555]
NAN_F64 = [0x7ff8000000000000, 0xfff8000000000000, 0x7ff8000000000001, 0xffffffffffffffff, 0x7ff0000000000001, 0xfff4000000000000]


def rand_value(rng, sch, t, budget=None):
    k = t["k"]
    if NAN_OK and k == "f32" and rng.random() < 0.15:
        return int_to_bits(rng.choice(NAN_F32), 32)
    if NAN_OK and k == "f64" and rng.random() < 0.15:
        return int_to_bits(rng.choice(NAN_F64), 64)
    if k == "u":
        w = t["w"]
        c = [0, 1, (1 << w) - 1, (1 << (w - 1)) - 1, 1 << (w - 1), rng.getrandbits(w)]
        return int_to_abs(rng.choice([x for x in c if 0 <= x < (1 << w)]))
    if k == "i":
        w = t["w"]
        lo, hi = -(1 << (w - 1)), (1 << (w - 1)) - 1
        c = [lo, -1, 0, 1, hi, rng.randint(lo, hi), rng.randint(lo, hi)]
        return int_to_abs(rng.choice([x for x in c if lo <= x <= hi]))
    if k == "f32":
        if rng.random() < 0.6:
            return f32_to_bits(rng.choice(BOUNDARY_F32))
        # a random finite / infinite pattern (no NaN payloads)
        while True:
            w = rng.getrandbits(32)
            if (w >> 23) & 0xFF != 0xFF or (w & 0x7FFFFF) == 0:
                return int_to_bits(w, 32)
    if k == "f64":
        if rng.random() < 0.6:
            return f64_to_bits(rng.choice(BOUNDARY_F64))
        while True:
            w = rng.getrandbits(64)
            if (w >> 52) & 0x7FF != 0x7FF or (w & ((1 << 52) - 1)) == 0:
                return int_to_bits(w, 64)
    if k == "enum":
        e = [x for x in sch["enums"] if x["name"] == t["name"]][0]
        return rng.choice(e["items"])["value"]
    if k == "str":
        n = rng.choice([0, 0, 1, 2, 5, 17, 40])
        return [rng.choice([0x20, 0x41, 0x7e, 0x7f, 0x01, 0x30, rng.randint(1, 127)]) for _ in range(n)]
    if k == "arr":
        return [rand_value(rng, sch, t["t"]) for _ in range(t["n"])]
    if k == "dyn":
        n = rng.choice([0, 0, 1, 2, 3, 5])
        return [rand_value(rng, sch, t["t"]) for _ in range(n)]
    if k == "opt":
        if rng.random() < 0.4:
            return []
        inner = rand_value(rng, sch, t["t"])
        if t["t"]["k"] in ("opt", "dyn") and inner == []:
            return []       # Some(None) has no Python representation (None is the outer None); Some([]) has no JSON
                            # representation in the generated C++ (an empty array decodes to JSON null)
        return [inner]
    if k == "struct":
        st = [x for x in sch["structs"] if x["name"] == t["name"]][0]
        return {f["name"]: rand_value(rng, sch, f["type"]) for f in st["fields"]}
    raise ValueError(t)
