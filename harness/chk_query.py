"""QRY (extension, not one of the listed properties): the query functions of FcpV2 against Query.tla.

TLC checks on the specification what a caller of get_xpath / get_matching_impls_or_default can rely on (RealPathFound,
FoundHasLastName, MIODSound), refutes the law that does NOT hold (a found field need not lie on the path asked for: a missing
intermediate name is skipped), and emits every small tree x every query with the specified outcome; each is put to the real
FcpV2 object (fields identified by object identity, exceptions as an outcome)."""
import json

from . import core, tlc, glue, build

glue.setup_repo_path()


def run_qry(tier, seed):
    chk = core.Check("QRY", tier, seed, "model_checking", ext=True)
    from fcp.xpath import Xpath
    res = tlc.run("Gen_Query", workdir=chk.workdir, env={"QUERY_LEN": "2" if tier == "quick" else "3"}, timeout=3000, heap="4g")
    chk.add_tlc(res, "Gen_Query")
    ref = tlc.run("Gen_Query", "MC_Query_refute.cfg", workdir=chk.workdir, env={"QUERY_LEN": "2"}, timeout=3000, heap="2g",
                  allow_violation=True)
    chk.add_tlc(ref, "Gen_Query[refute NoSkip]")
    if ref.invariant_violated != "NoSkip":
        raise core.Machinery("MC_Query_refute: expected a counterexample to NoSkip, got %r" % (ref.invariant_violated,))
    chk.notes["design_results"] = {
        "RealPathFound": "holds: with unique field names per struct a path that exists is found and it is that field",
        "FoundHasLastName": "holds", "MIODSound": "holds", "VisitAgreesWithBitsOf": "holds: for fixed-size, well-kinded types the leaves TypeVisitor.visit reaches add up to FcpSchema!BitsOf", "VisitRaisesOnlyOnBadReference": "holds", "CategoriesPartition": "holds: every node is in exactly one primary category of get(), once",
        "NoSkip": "refuted: get_xpath skips an intermediate name that the current struct does not have (A:nosuch/x returns A.x)"}
    head = [o for o in res.out if o["kind"] == "queries"]
    if len(head) != 1:
        raise core.Machinery("Gen_Query: expected one queries line, got %d" % len(head))
    queries, asked, cats_asked = head[0]["queries"], head[0]["asked"], head[0]["cats"]
    lines = sorted((o for o in res.out if o["kind"] != "queries"), key=lambda o: json.dumps(o, sort_keys=True))
    if not any(o["kind"] == "xpath" for o in lines) or not any(o["kind"] == "impl" for o in lines):
        raise core.Machinery("Gen_Query emitted no cases")
    from fcp.type_visitor import TypeVisitor

    class Recorder(TypeVisitor):
        """the free visitor: every hook returns its own arguments (the call tree of visit)"""
        def struct(self, t, fields, name): return {"v": "struct", "name": name, "t": t.name, "fields": fields}
        def enum(self, t, name): return {"v": "enum", "name": name, "t": t.name}
        def unsigned(self, t, name): return {"v": "unsigned", "name": name, "w": t.get_length()}
        def signed(self, t, name): return {"v": "signed", "name": name, "w": t.get_length()}
        def float(self, t, name): return {"v": "float", "name": name}
        def double(self, t, name): return {"v": "double", "name": name}
        def string(self, t, name): return {"v": "string", "name": name}
        def array(self, t, inner, name): return {"v": "array", "name": name, "n": t.size, "inner": inner}
        def dynamic_array(self, t, inner, name): return {"v": "dynamic_array", "name": name, "inner": inner}
        def optional(self, t, inner, name): return {"v": "optional", "name": name, "inner": inner}

    outcomes = set()
    for o in lines:
        sch = o["sch"]
        fcp = build.mk_fcp(sch, default_impls=False)
        if o["kind"] == "xpath":
            where = {}
            for si, s in enumerate(fcp.structs):
                for fi, f in enumerate(s.fields):
                    where[id(f)] = [si + 1, fi + 1]
            for q, want in zip(queries, o["out"]):
                text = q["text"]                # the text form comes from the specification (Query!Text)
                chk.count(1, traces=1)
                try:
                    xp = Xpath(text)
                    # the same query built step by step: Appended(..) through append() and through the division operator
                    alt = Xpath(q["root"] + ":" + q["path"][0])
                    for n, name in enumerate(q["path"][1:]):
                        if n % 2 == 0:
                            alt.append(name)
                        else:
                            alt / name
                    if str(xp) != text or xp.root != q["root"] or xp.path != q["path"] or str(alt) != text or alt.path != q["path"]:
                        got = "xpath-text-differs"
                    else:
                        r = fcp.get_xpath(xp)
                        if r.is_ok():
                            got = where.get(id(r.unwrap()), "ok-with-a-foreign-object")
                        else:
                            e = r.unwrap_err() if hasattr(r, "unwrap_err") else r.err_value
                            got = {"Invalid xpath format": "invalid", "Field not found": "notfound"}.get(e, "err:" + str(e))
                except Exception as e:          # an exception is an outcome of the specification ("raise")
                    got = "raise"
                    exc = type(e).__name__
                outcomes.add(json.dumps(want if isinstance(want, str) else "ok"))
                if got != want:
                    chk.violation("get_xpath:%s" % ("raised" if got == "raise" else "outcome-differs"),
                                  {"schema": sch, "xpath": text, "specified": want, "observed": got})
                elif isinstance(want, list):
                    chk.distinct(json.dumps([sch["structs"], text]))
        elif o["kind"] == "visit":
            for t, want in zip(o["asked"], o["terms"]):
                chk.count(1, traces=1)
                try:
                    got = Recorder(fcp).visit(build.mk_type(t), "r")
                except Exception as e:
                    got = {"v": "raise"}
                if got != want:
                    chk.violation("type_visitor.visit:%s" % ("raised" if got == {"v": "raise"} else "call-tree-differs"),
                                  {"schema": sch, "type": t, "specified": want, "observed": got})
                elif want != {"v": "raise"}:
                    chk.distinct(json.dumps([sch["structs"], t]))
        elif o["kind"] == "cat":
            names = {}
            for i, s in enumerate(fcp.structs):
                names[id(s)] = ["struct", i + 1]
                for j, f in enumerate(s.fields):
                    names[id(f)] = ["field", i + 1, j + 1]
            for i, e in enumerate(fcp.enums):
                names[id(e)] = ["enum", i + 1]
            for i, im in enumerate(fcp.impls):
                names[id(im)] = ["impl", i + 1]
                for j, sg in enumerate(im.signals):
                    names[id(sg)] = ["signal_block", i + 1, j + 1]
            for i, sv in enumerate(fcp.services):
                names[id(sv)] = ["service", i + 1]
            for i, dv in enumerate(fcp.devices):
                names[id(dv)] = ["device", i + 1]
            for cat, want in zip(cats_asked, o["cats"]):
                chk.count(1, traces=1)
                try:
                    r = fcp.get(cat)
                    if r.is_nothing():
                        got = "nothing"
                    else:
                        got = []
                        for node in r.unwrap():
                            if cat == "field":      # (struct, field) pairs: the pair must name the field's own struct
                                st, fld = node
                                nm = names.get(id(fld), ["foreign"])
                                got.append(nm if names.get(id(st)) == ["struct", nm[1] if len(nm) > 1 else 0] else ["field-of-another-struct"])
                            else:
                                got.append(names.get(id(node), ["foreign"]))
                except Exception as e:
                    got = "raise " + type(e).__name__
                if got != want:
                    chk.violation("get[%s]:nodes-differ" % (cat if cat in ("struct", "enum", "impl", "field", "signal_block", "type", "service", "device") else "unknown-category"),
                                  {"schema": sch, "category": cat, "specified": want, "observed": got})
                elif want and want != "nothing":
                    chk.distinct(json.dumps([sch, cat]))
        else:
            idx = {id(im): i + 1 for i, im in enumerate(fcp.impls)}
            for a, p in enumerate(asked):
                chk.count(1, traces=1)
                obs = {}
                try:
                    obs["miod"] = [idx.get(id(im), 0) for im in fcp.get_matching_impls_or_default(p)]
                    obs["mi"] = [idx.get(id(im), 0) for im in fcp.get_matching_impls(p)]
                    obs["one"] = [[idx.get(id(im), 0) for im in fcp.get_matching_impl(s, p)] for s in fcp.structs]
                except Exception as e:
                    chk.violation("impl-selection:raised", {"schema": sch, "protocol": p, "exception": "%s: %s" % (type(e).__name__, e)})
                    continue
                for key in ("miod", "mi", "one"):
                    if obs[key] != o[key][a]:
                        chk.violation({"miod": "get_matching_impls_or_default", "mi": "get_matching_impls", "one": "get_matching_impl"}[key]
                                      + ":selection-differs", {"schema": sch, "protocol": p, "specified": o[key][a], "observed": obs[key]})
                if o["miod"][a]:
                    chk.distinct(json.dumps([sch["structs"], sch["impls"], p]))
            chk.count(1)
            try:
                protos = fcp.get_protocols()
            except Exception as e:
                protos = ["raised " + type(e).__name__]
            if sorted(protos) != sorted(o["protocols"]):
                chk.violation("get_protocols:set-differs", {"schema": sch, "specified": sorted(o["protocols"]), "observed": sorted(protos)})
    chk.notes["outcome_classes_seen"] = sorted(outcomes)
    xs = [o for o in lines if o["kind"] == "xpath"]
    chk.sample({"schema": xs[len(xs) // 3]["sch"]["structs"], "queries": queries[:6], "specified": xs[len(xs) // 3]["out"][:6]})
    chk.assumptions += ["names are words over [A-Za-z] or empty (the text form root:p1/p2 is then parsed back unambiguously)",
                        "trees of 2-3 structs with 1-2 fields, one enum; paths of at most %s names" % ("2" if tier == "quick" else "3"),
                        "the ORDER of get_protocols() is that of a Python set and is not specified"]
    return chk.finish("laws of Query.tla as TLC invariants (RealPathFound, FoundHasLastName, MIODSound, CategoriesPartition, VisitAgreesWithBitsOf, VisitRaisesOnlyOnBadReference), NoSkip refuted; every "
                      "tree x query (get_xpath through the Xpath text form; get_matching_impl / get_matching_impls / "
                      "get_matching_impls_or_default / get_protocols; get(category) for the eight categories and two unknown ones; TypeVisitor.visit with a recording visitor) evaluated with the real FcpV2 object and compared by object "
                      "identity; distinct = (tree, query) with a found field / a non-empty selection")
