"""C08 (reference resolution) and C20 (module transparency) against Modules.tla."""
import json
import os
import random
import shutil

from . import core, tlc, glue
from .chk_syntax import norm_actual, fix_fields, first_diff, rand_decls
from .chk_parse import _ANSI

glue.setup_repo_path()


_WT = [0]


def write_tree(root, files):
    """every third tree: modules below the root directory are written with CRLF line endings (text files of another
    platform), and every file in a sub-directory gets a DECOY of the same file name beside the root schema, declaring something
    else - a module path is resolved relative to the importing file, never against the root"""
    shutil.rmtree(root, ignore_errors=True)
    _WT[0] += 1
    crlf = _WT[0] % 3 == 0
    names = {tuple(f["path"]) for f in files}
    for f in files:
        p = os.path.join(root, *f["path"]) + ".fcp"
        os.makedirs(os.path.dirname(p), exist_ok=True)
        with open(p, "w", newline="") as fh:
            fh.write(f["text"].replace("\n", "\r\n") if crlf and len(f["path"]) >= 1 and f["path"] != ["main"]
                     and "\r" not in f["text"] else f["text"])
        if _WT[0] % 2 == 0:
            for k in range(1, len(f["path"])):
                suffix = tuple(f["path"][k:])          # where the same dotted path would lead from the ROOT directory
                if suffix in names:
                    continue
                dp = os.path.join(root, *suffix) + ".fcp"
                os.makedirs(os.path.dirname(dp), exist_ok=True)
                with open(dp, "w") as fh:
                    fh.write('version: "3"\n\nstruct Decoy%s%d { z @0: u1, }\n' % (suffix[-1].capitalize(), k))
    return os.path.join(root, "main.fcp")


_CWD_MODE = [0]


def load(root_file, cwd_mode=None):
    """-> ("ok", fcp, dict) | ("err", repr, rendered) | ("raised", msg, None)
    The working directory of the process is not part of the property: successive loads run from the harness's directory (an
    ancestor of the tree), from a directory beside the tree, and from the tree itself with a relative root path."""
    if cwd_mode is None:
        _CWD_MODE[0] = (_CWD_MODE[0] + 1) % 3
        cwd_mode = _CWD_MODE[0]
    here = os.getcwd()
    try:
        if cwd_mode == 1:
            other = os.path.dirname(os.path.abspath(root_file)) + "-elsewhere"
            os.makedirs(other, exist_ok=True)
            os.chdir(other)
        elif cwd_mode == 2:
            os.chdir(os.path.dirname(os.path.abspath(root_file)))
            root_file = os.path.basename(root_file)
        return _load(root_file)
    finally:
        os.chdir(here)


_ALIVE = []      # the last trees stay referenced, as in a long-lived tool (an editor plug-in, a server)


def _load(root_file):
    from fcp.parser import get_fcp
    from fcp.error import Logger
    logger = Logger({})
    try:
        r = get_fcp(root_file, logger)
        _ALIVE.append(r)
        del _ALIVE[:-40]
        if r.is_ok():
            fcp = r.unwrap()
            return "ok", fcp, norm_actual(fcp.to_dict())
        err = r.err()
        try:
            rendered = _ANSI.sub("", logger.error(err))
        except Exception as e:
            rendered = "<render raised %s>" % type(e).__name__
        return "err", repr(err), rendered
    except Exception as e:
        return "raised", "%s: %s" % (type(e).__name__, str(e)[:300]), None


def bag(lst):
    return sorted(json.dumps(x, sort_keys=True) for x in lst)


def kinds_ok(fcp):
    """every user-type reference in every field resolves through FcpV2.get_type to a node of the tagged kind"""
    from fcp.specs import type as T
    from fcp.specs.struct import Struct
    from fcp.specs.enum import Enum
    bad = []

    def walk(t, where):
        if isinstance(t, (T.ArrayType, T.DynamicArrayType, T.OptionalType)):
            walk(t.underlying_type, where)
        elif isinstance(t, (T.StructType, T.EnumType)):
            node = fcp.get_type(t)
            if node.is_nothing():
                bad.append("%s: %s unresolved" % (where, t.name))
            else:
                n = node.unwrap()
                want = Struct if isinstance(t, T.StructType) else Enum
                if not isinstance(n, want):
                    bad.append("%s: %s tagged %s but is %s" % (where, t.name, type(t).__name__, type(n).__name__))
    for s in fcp.structs:
        for f in s.fields:
            walk(f.type, "%s.%s" % (s.name, f.name))
    return bad


def judge_case(chk, c, root, mode, pid):
    """c: TLC's expectation for a file tree (files with text, ok, tree | why/file/type/struct, inject, where)"""
    main = write_tree(root, c["files"])
    st, a, b = load(main)
    ctx = {"mode": mode, "files": {"/".join(f["path"]) + ".fcp": f["text"] for f in c["files"]},
           "specified": {k: c[k] for k in ("ok", "why", "file", "type", "struct") if k in c}}
    if st == "raised":
        chk.violation("%s:exception-escaped" % ("resolve" if pid == "C08" else "modules"), dict(ctx, observed=a))
        return
    if c["ok"] == 1:
        if st != "ok":
            chk.violation("%s:rejected-valid-schema" % ("resolve" if pid == "C08" else "modules"), dict(ctx, error=a, rendered=b))
            return
        exp = fix_fields(c["tree"])
        if pid == "C08":
            bad = kinds_ok(a)
            if bad:
                chk.violation("resolve:dangling-or-miskinded-reference", dict(ctx, problems=bad))
            es = {s["name"]: s for s in exp["structs"]}
            for s in b["structs"]:
                d = first_diff(es.get(s["name"]), s)
                if d:
                    chk.violation("resolve:field-type-differs", dict(ctx, struct=s["name"], at=d[0], expected=d[1], observed=d[2]))
                    break
        else:
            for kind in ("structs", "enums", "impls", "services", "devices"):
                if bag(exp[kind]) != bag(b.get(kind, [])):
                    missing = [x for x in bag(exp[kind]) if x not in bag(b.get(kind, []))]
                    extra = [x for x in bag(b.get(kind, [])) if x not in bag(exp[kind])]
                    chk.violation("modules:%s-differ-from-single-file:%s" % (kind, "missing" if missing else "extra"),
                                  dict(ctx, kind=kind, missing=missing[:3], extra=extra[:3]))
                    break
    else:
        if st == "ok":
            if c["why"] == "unresolved":
                chk.violation("resolve:accepted-reference-to-undeclared-type", dict(ctx, problems=kinds_ok(a)))
            else:
                chk.violation("modules:accepted-broken-module:%s" % c["why"], ctx)
            return
        text = (a or "") + "\n" + (b or "")
        if c["why"] == "unresolved" and pid == "C08":
            if c["type"] not in text or c["struct"] not in text:
                chk.violation("resolve:error-does-not-name-type-and-struct", dict(ctx, error=a, rendered=b))
        if pid == "C20" and c.get("inject", "none") != "none":
            fname = c["file"][-1] + ".fcp"
            if fname not in text:
                chk.violation("modules:error-does-not-name-%s" % ("missing-file" if c["why"] == "missing-file" else "module"),
                              dict(ctx, expected_name=fname, error=a, rendered=b))


def to_ref_types(decls):
    """user types as unresolved references (what a text contains)"""
    def conv(t):
        if t["k"] in ("struct", "enum"):
            return {"k": "ref", "name": t["name"]}
        if t["k"] in ("arr", "dyn", "opt"):
            d = dict(t)
            d["t"] = conv(t["t"])
            return d
        return t
    out = []
    for d in decls:
        d = json.loads(json.dumps(d))
        if d["kind"] == "struct":
            for f in d["fields"]:
                f["type"] = conv(f["type"])
        out.append(d)
    return out


def rand_file_tree(rng):
    """a random declaration list cut into up to 3 files with `mod` statements at random places: the result may or may
    may not respect declare-before-use - TLC says which"""
    decls = to_ref_types(rand_decls(rng))
    if rng.random() < 0.3 and len(decls) > 1:
        i, j = rng.sample(range(len(decls)), 2)
        decls[i], decls[j] = decls[j], decls[i]
    paths = [["m1"], ["d1", "m2"], ["d1", "d2", "m3"], ["pa", "types"], ["pb", "types"]]
    nmod = rng.randint(0, 2)
    files = {("main",): []}
    assign = {}
    mods = [tuple(p) for p in rng.sample(paths, nmod)]
    for i in range(len(decls)):
        assign[i] = rng.choice([("main",)] + mods) if mods and rng.random() < 0.4 else ("main",)
    placed = set()
    for i, d in enumerate(decls):
        tgt = assign[i]
        if tgt != ("main",) and tgt not in placed:
            placed.add(tgt)
            files[("main",)].append({"kind": "mod", "path": list(tgt)})
        files.setdefault(tgt, []).append(d)
    return [{"path": list(p), "decls": ds} for p, ds in files.items() if ds or p == ("main",)]


def run(pid, tier, seed):
    chk = core.Check(pid, tier, seed, "model_checking")
    rng = random.Random(seed)
    which = "resolve" if pid == "C08" else "split"
    res = tlc.run("Gen_Modules", workdir=chk.workdir, env={"MOD_WHICH": which, "MOD_SCOPE": tier}, timeout=3000, heap="6g")
    chk.add_tlc(res, "Gen_Modules[%s,%s]" % (which, tier))
    cases = sorted(res.out, key=lambda o: json.dumps(o, sort_keys=True))
    chk.notes["cases_emitted"] = len(cases)
    limit = 1500 if tier == "quick" else len(cases)
    if len(cases) > limit:
        rng.shuffle(cases)
        cases = cases[:limit]
    root = os.path.join(chk.workdir, "tree")
    byinj = {}
    for c in cases:
        byinj[c.get("inject", "none")] = byinj.get(c.get("inject", "none"), 0) + 1
    chk.notes["cases_by_injected_fault"] = byinj
    for ci, c in enumerate(cases):
        chk.count(1, traces=1)
        chk.distinct(json.dumps(c["files"], sort_keys=True))
        judge_case(chk, c, root, "G", pid)
        if pid == "C08" and ci % 4 == 0:
            # the same tree with the names of the struct Aa and the enum Ee exchanged (an alpha-renaming), loaded in the
            # same process: the kind an identifier had in an earlier load must not matter
            from .chk_syntax import swap_names
            twin = json.loads(swap_names(json.dumps(c), "Aa", "Ee", quoted=True))
            for f, g in zip(twin["files"], c["files"]):
                f["text"] = swap_names(g["text"], "Aa", "Ee")
            chk.count(1, traces=1)
            judge_case(chk, twin, root, "G-renamed-twin", pid)
        if pid == "C08" and ci % 4 == 0:
            # a FAMILY of names: every type name gets one long common prefix, so that the undeclared name is as similar to several
            # declared ones as they are to each other
            import re
            fam = ["Aa", "Ee", "Pp", "Zz", "Mx", "Me", "Ma", "Mz", "Sib", "Nope", "Nowhere", "Alias"]
            pat = re.compile(r"\b(%s)\b" % "|".join(fam))
            dumped = json.dumps(c)
            twin = json.loads(re.sub(r'"(%s)"' % "|".join(fam), lambda m: '"WheelSensor%s"' % m.group(1), dumped))
            for f, g in zip(twin["files"], c["files"]):
                f["text"] = pat.sub(lambda m: "WheelSensor" + m.group(1), g["text"])
            chk.count(1, traces=1)
            judge_case(chk, twin, root, "G-family-of-similar-names", pid)
        if pid == "C08" and ci % 4 in (1, 2, 3):
            # alpha-renamings that make one type name CONTAIN another: the undeclared name becomes an extension of the declared
            # struct's name / the enum's name an extension of the struct's / the struct's a prefix-free part of the enum's
            import re
            old_, new_ = (("Nowhere", "AaNowhere"), ("Ee", "AaEe"), ("Aa", "E"))[ci % 4 - 1]
            dumped = json.dumps(c)
            if json.dumps(old_) in dumped or re.search(r"\b%s\b" % old_, " ".join(f["text"] for f in c["files"])):
                twin = json.loads(dumped.replace(json.dumps(old_), json.dumps(new_)))
                for f, g in zip(twin["files"], c["files"]):
                    f["text"] = re.sub(r"\b%s\b" % old_, new_, g["text"])
                chk.count(1, traces=1)
                judge_case(chk, twin, root, "G-name-containing-another", pid)
        chk.sample({"files": {"/".join(f["path"]) + ".fcp": f["text"] for f in c["files"]},
                    "specified": {k: c[k] for k in ("ok", "why", "file", "type", "struct", "inject")}}, cap=2)
    # (T) random declaration lists cut into random file trees; TLC (Ora_Modules) says what loading them gives
    n = 300 if tier == "quick" else 6000
    reqs = [{"id": "t%d" % i, "files": rand_file_tree(rng)} for i in range(n)]
    path = os.path.join(chk.workdir, "mod-reqs.ndjson")
    with open(path, "w") as f:
        for r in reqs:
            f.write(json.dumps(r) + "\n")
    ora = tlc.run("Ora_Modules", workdir=chk.workdir, env={"TRACE_FILE": path}, timeout=3000, heap="6g")
    chk.add_tlc(ora, "Ora_Modules[%d file trees]" % n)
    ans = {v["id"]: v for v in ora.verdicts}
    nok = 0
    for r in reqs:
        if r["id"] not in ans:
            raise core.Machinery("no answer for %s" % r["id"])
        a = ans[r["id"]]
        if a["nodangling"] != 1:
            raise core.Machinery("specification accepted a dangling reference: %s" % r["id"])
        nok += a["ok"]
        c = {"files": a["texts"], "ok": a["ok"], "tree": a["tree"], "why": a["why"], "file": a["file"], "type": a["type"],
             "struct": a["struct"], "inject": "none"}
        chk.count(1, traces=1)
        chk.distinct(json.dumps(a["texts"], sort_keys=True))
        judge_case(chk, c, root, "T", pid)
    chk.notes["random_trees_loadable"] = nok
    chk.notes["random_trees_rejected"] = n - nok
    shutil.rmtree(root, ignore_errors=True)
    if pid == "C08":
        chk.assumptions += ["type names are unique across structs and enums (duplicates are the verifier's business)",
                            "'names the type and the enclosing struct' = both names occur in repr(err) or in the rendered diagnostic"]
        rule = ("(M) Gen_Modules[resolve]: NoDangling and ErrNamesBoth over %d file trees: a probe reference in 7 wrappers (bare, "
                "array, optional, dynamic array, optional-of-array, dynamic-of-optional, array-of-array) x 9 targets (earlier struct, "
                "earlier enum, later, self, undeclared, struct/enum from a module imported before, after, through a nested module) x 3 "
                "field positions; each written to disk and loaded with get_fcp; (T) %d random declaration lists cut into random file "
                "trees judged by TLC (Ora_Modules); distinct = distinct file tree" % (len(res.out), n))
    else:
        chk.assumptions += ["'the same structs, enums, bindings, services and devices' = equal multisets per kind",
                            "'names the module/file' = the file name occurs in repr(err) or in the rendered diagnostic"]
        rule = ("(M) Gen_Modules[split]: Transparent and ErrNamesModule over %d file trees: every declare-before-use-respecting subset "
                "of two 6-declaration schemas (all five kinds) moved to a module at paths of 1..3 segments, and every two-level split "
                "(module importing a sub-module), each also with a syntax error / an undeclared type / the file deleted / a declaration the front end's "
                "callbacks raise on (unknown field parameter, string enumerator value, one-bound range) injected into each module; (G) %d of them written to disk and loaded; (T) %d random file trees judged by Ora_Modules; distinct = "
                "distinct file tree" % (len(res.out), len(cases), n))
    return chk.finish(rule)


def run_c08(tier, seed):
    return run("C08", tier, seed)


def run_c20(tier, seed):
    return run("C20", tier, seed)
