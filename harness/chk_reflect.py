"""C12: reflection is a lossless, faithful description of the schema (Reflect.tla + Wire)."""
import copy
import json
import os
import random

from . import core, tlc, glue, absfcp, pycodec
from .chk_syntax import rand_decls, rand_style
from .chk_wire import trace_wire, canaries, check_canaries

glue.setup_repo_path()


def strip_meta(x):
    if isinstance(x, dict):
        return {k: strip_meta(v) for k, v in x.items() if k != "meta"}
    if isinstance(x, list):
        return [strip_meta(v) for v in x]
    return x


def norm(x):
    if isinstance(x, dict):
        return {k: norm(v) for k, v in x.items()}
    if isinstance(x, (list, tuple)):
        return [norm(v) for v in x]
    if isinstance(x, float):
        return {"f": repr(x)}
    return x


def expected_record(r):
    """TLC's Reflect(decls) -> the Python-side vocabulary (None for absent, float(token), str(value))"""
    def opt(v, conv=lambda z: z):
        return None if v == [] else conv(v[0])
    out = {"tag": r["tag"], "version": r["version"], "structs": [], "enums": r["enums"], "impls": [], "services": r["services"]}
    for s in r["structs"]:
        out["structs"].append({"name": s["name"], "fields": [
            {"name": f["name"], "field_id": f["field_id"], "type": f["type"], "unit": opt(f["unit"]),
             "min_value": opt(f["min_value"], lambda z: float(z["f"])), "max_value": opt(f["max_value"], lambda z: float(z["f"]))}
            for f in s["fields"]]})
    def dictseq(fl):
        return [{"name": x["name"], "value": str(glue.lit_py(x["value"]["lit"]))} for x in fl]
    for im in r["impls"]:
        out["impls"].append({"name": im["name"], "protocol": im["protocol"], "type": im["type"], "fields": dictseq(im["fields"]),
                             "signals": [{"name": sg["name"], "fields": dictseq(sg["fields"])} for sg in im["signals"]]})
    return out


def first_diff(a, b, path=""):
    from .chk_syntax import first_diff as fd
    return fd(a, b, path)


def resolve_for_text(decls):
    return decls


def run_c12(tier, seed):
    chk = core.Check("C12", tier, seed, "model_checking")
    rng = random.Random(seed)
    from fcp.reflection import get_reflection_schema
    from fcp.parser import get_fcp_from_string
    from fcp.error import Logger
    from fcp import serde
    rs = get_reflection_schema()
    if rs.is_err():
        raise core.Machinery("the reflection schema itself does not load: %r" % rs.err())
    rfcp = rs.unwrap()
    rsch = absfcp.from_fcp(rfcp)
    res = tlc.run("Gen_Reflect", workdir=chk.workdir, env={"SYN_SCOPE": tier}, timeout=3000, heap="6g")
    chk.add_tlc(res, "Gen_Reflect[%s]" % tier)
    cases = [{"text": o["text"], "reflect": o["reflect"], "mode": "G"}
             for o in sorted(res.out, key=lambda o: json.dumps(o["decls"], sort_keys=True))]
    chk.notes["descriptions_emitted"] = len(cases)
    limit = 500 if tier == "quick" else len(cases)
    if len(cases) > limit:
        rng.shuffle(cases)
        cases = cases[:limit]
    # random descriptions: TLC renders the text and the record
    n = 150 if tier == "quick" else 3000
    reqs = [{"id": "r%d" % i, "decls": rand_decls(rng), "style": rand_style(rng)} for i in range(n)]
    path = os.path.join(chk.workdir, "reflect-reqs.ndjson")
    with open(path, "w") as f:
        for r in reqs:
            f.write(json.dumps(r) + "\n")
    ora = tlc.run("Ora_Reflect", workdir=chk.workdir, env={"TRACE_FILE": path}, timeout=3000, heap="6g")
    chk.add_tlc(ora, "Ora_Reflect[%d descriptions]" % n)
    for v in sorted(ora.verdicts, key=lambda v: v["id"]):
        cases.append({"text": v["text"], "reflect": v["reflect"], "mode": "T"})
    # the same descriptions with other CONTENTS in one string literal (quotes, apostrophes, backslashes, blanks at its ends)
    from .chk_syntax import string_twin
    twins = []
    for ci, c in enumerate(cases):
        if ci % 3 == 0:
            tw = string_twin(c["text"], c["reflect"], ci)
            if tw:
                twins.append({"text": tw[0], "reflect": tw[1], "mode": c["mode"] + "-string-contents"})
    from .chk_syntax import number_twin
    for ci, c in enumerate(list(cases)):
        if ci % 3 == 1:
            nt = number_twin(c["text"])
            if nt:
                twins.append({"text": nt, "reflect": c["reflect"], "mode": c["mode"] + "-zero-padded-integers"})
    cases = cases + twins
    events, meta = [], {}
    for ci, c in enumerate(cases):
        chk.count(1, traces=1)
        chk.distinct(c["text"])
        r = get_fcp_from_string(c["text"], Logger({}))
        if r.is_err():
            raise core.Machinery("front end rejected a C12 schema (C07's business): %r\n%s" % (r.err(), c["text"]))
        fcp = r.unwrap()
        try:
            rec = fcp.reflection()
        except Exception as e:
            feats = "signal-block" if "signal " in c["text"] else "plain"
            chk.violation("reflection:raised:%s:%s" % (type(e).__name__, feats),
                          {"mode": c["mode"], "text": c["text"], "error": "%s: %s" % (type(e).__name__, str(e)[:200])})
            continue
        # the description is a function of the schema: asking the same object again (generators do: one reflection per output
        # file) gives the same record, and does not edit the records handed out before
        try:
            snap = copy.deepcopy(rec)
            again = [fcp.reflection(), fcp.reflection()]
            for n, rec_n in enumerate(again):
                dn = first_diff(norm(snap), norm(rec_n))
                if dn:
                    chk.violation("reflection:repeated-call-differs:%s" % "/".join(p for p in dn[0].split("/") if p and not p.isdigit())[:60],
                                  {"mode": c["mode"], "text": c["text"], "call": n + 2, "at": dn[0], "first_call": dn[1], "this_call": dn[2]})
                    break
            else:
                dn = first_diff(norm(snap), norm(rec))
                if dn:
                    chk.violation("reflection:earlier-record-edited-by-later-call:%s" % "/".join(p for p in dn[0].split("/") if p and not p.isdigit())[:60],
                                  {"mode": c["mode"], "text": c["text"], "at": dn[0], "as_returned": dn[1], "after_later_calls": dn[2]})
            rec = snap
        except Exception as e:
            chk.violation("reflection:raised:%s:repeated-call" % type(e).__name__,
                          {"mode": c["mode"], "text": c["text"], "error": "%s: %s" % (type(e).__name__, str(e)[:200])})
            continue
        d = first_diff(norm(expected_record(c["reflect"])), norm(strip_meta(rec)))
        if d:
            chk.violation("reflection:record-differs:%s" % "/".join(p for p in d[0].split("/") if p and not p.isdigit())[:60],
                          {"mode": c["mode"], "text": c["text"], "at": d[0], "specified": d[1], "observed": d[2]})
        # lossless: serialize with the built-in reflection schema and decode again
        try:
            val = glue.from_py(rsch, {"k": "struct", "name": "Fcp"}, rec)
        except glue.BadValue as e:
            chk.violation("reflection:record-does-not-fit-reflection-schema", {"mode": c["mode"], "text": c["text"], "error": str(e)})
            continue
        try:
            enc = list(serde.encode(rfcp, "Fcp", rec))
            enc_ok = 1
        except Exception as e:
            enc, enc_ok = [], 0
            chk.violation("reflection:encode-raised:%s" % type(e).__name__, {"mode": c["mode"], "text": c["text"], "error": str(e)[:200]})
            continue
        if ci % 15 == 0:
            # the `fcp encode` command writes the same record: its file must hold exactly these (TLC-judged) bytes
            try:
                from click.testing import CliRunner
                from fcp.__main__ import encode as encode_cmd
                from fcp.reflection import _get_reflection_path
                src = os.path.join(chk.workdir, "main.fcp")
                dst = os.path.join(chk.workdir, "schema.bin")
                with open(src, "w") as f:
                    f.write(c["text"])
                if os.path.exists(dst):
                    os.remove(dst)
                res_cli = CliRunner().invoke(encode_cmd, [str(_get_reflection_path()), src, dst])
                chk.count(1, traces=1)
                if res_cli.exception is not None or not os.path.exists(dst):
                    chk.violation("reflection:encode-command-failed", {"mode": c["mode"], "text": c["text"],
                                                                      "error": repr(res_cli.exception), "output": (res_cli.output or "")[:300]})
                else:
                    # meta.filename differs (path vs "main.fcp"): compare with an in-process encode of the file-parsed schema
                    from fcp.parser import get_fcp
                    rec2 = get_fcp(src).unwrap().reflection()
                    if open(dst, "rb").read() != bytes(serde.encode(rfcp, "Fcp", rec2)):
                        chk.violation("reflection:encode-command-writes-other-bytes", {"mode": c["mode"], "text": c["text"]})
                    elif strip_meta(rec2) != strip_meta(rec):
                        chk.violation("reflection:file-and-string-entry-differ", {"mode": c["mode"], "text": c["text"]})
            except ImportError:
                pass
        st2, dec = pycodec.decode(rfcp, rsch, "Fcp", enc)
        # identity needs no oracle: what comes back must be the record that went in
        try:
            back = serde.decode(rfcp, "Fcp", bytearray(enc))
            if norm(back) != norm(rec):
                d2 = first_diff(norm(rec), norm(back))
                chk.violation("reflection:decoded-record-differs:%s" % ("/".join(p for p in d2[0].split("/") if p and not p.isdigit())[:60] if d2 else "?"),
                              {"mode": c["mode"], "text": c["text"], "at": d2[0] if d2 else None, "record": d2[1] if d2 else None, "decoded": d2[2] if d2 else None})
        except Exception as e:
            chk.violation("reflection:decode-raised:%s" % type(e).__name__, {"mode": c["mode"], "text": c["text"], "error": str(e)[:200]})
        eid = "e%d" % ci
        events.append({"id": eid, "kind": "enc", "schema": rsch, "root": "Fcp", "value": val, "ok": enc_ok, "bytes": enc})
        events.append({"id": "d" + eid, "kind": "rt", "schema": rsch, "root": "Fcp", "value": val,
                       "ok": 1 if st2 == "ok" else 0, "value2": dec if st2 == "ok" else []})
        meta[eid] = meta["d" + eid] = (c, len(enc), st2)
        chk.sample({"text": c["text"], "reflection_record": strip_meta(rec), "encoded_bytes": len(enc)}, cap=2)
    cans = canaries(events, rng, n=4)
    verd = trace_wire(chk, events + cans, "Trace_Wire[reflection records]")
    check_canaries(verd, cans)
    chk.notes["canaries_rejected"] = len(cans)
    sizes = []
    for e in events:
        c, nbytes, st2 = meta[e["id"]]
        cl = verd[e["id"]]["clause"]
        chk.count(1, traces=1)
        if e["kind"] == "enc":
            sizes.append(nbytes)
        if cl.startswith("glue:"):
            chk.violation("reflection:record-not-in-range-of-reflection-schema", {"mode": c["mode"], "text": c["text"], "clause": cl})
        elif cl != "ok":
            chk.violation("reflection:%s" % cl.replace(":", "-"), {"mode": c["mode"], "text": c["text"], "clause": cl, "decode_status": st2})
    chk.notes["record_bytes_min_max"] = [min(sizes), max(sizes)] if sizes else None
    chk.assumptions += ["`meta` (source positions) is projected away before comparing the record; the string form of an extension value "
                        "is Python's str() of the parsed value, applied by the glue to the specified literal",
                        "the reflection schema is parsed from src/fcp/reflection/reflection.fcp at check time and shipped to TLC in the event"]
    return chk.finish(
        "(G) %d descriptions of SyntaxGen (every node kind, with and without unit / range / signal blocks / services, types to depth "
        "2-3) and (T) %d random descriptions: fcp.reflection() (meta projected away) compared with Reflect(decls) from TLC; the record "
        "encoded with the built-in reflection schema and decoded: bytes == Canon and decoded == record judged by Trace_Wire with the "
        "reflection schema as parsed from the repository; distinct = distinct schema text" % (min(limit, len(res.out)), n))
