"""Representation-only glue between the abstract (TLA+/JSON) world and fcp-core.

Nothing in here knows the wire format, the layout or any rule of the verifier: it
prints abstract schemas as FCP text, and converts values
    int   <-> {"s": 0|1, "m": [magnitude bits, LSB first]}
    float <-> IEEE-754 word as a bit list (struct.pack, trusted)
    str   <-> list of code points
    None / x <-> [] / [x]
    dict  <-> object
"""
import struct
import sys

import os as _os
REPO = _os.environ.get("FCP_REPO", "/repo")      # background sweeps run against a snapshot of /repo


def setup_repo_path():
    """Import fcp and the plug-ins from /repo's working tree."""
    paths = [REPO + "/src", REPO + "/plugins/fcp_dbc", REPO + "/plugins/fcp_can_c",
             REPO + "/plugins/fcp_cpp", REPO + "/plugins/fcp_nop"]
    for p in reversed(paths):
        if p not in sys.path:
            sys.path.insert(0, p)


# ------------------------------------------------------------------ integers
def int_to_abs(n):
    n = int(n)
    mag = abs(n)
    bits = []
    while mag:
        bits.append(mag & 1)
        mag >>= 1
    return {"s": 1 if n < 0 else 0, "m": bits}


def abs_to_int(v):
    n = 0
    for i, b in enumerate(v["m"]):
        n |= b << i
    return -n if v["s"] else n


def bits_to_int(bits):
    n = 0
    for i, b in enumerate(bits):
        n |= b << i
    return n


def int_to_bits(n, w):
    return [(n >> i) & 1 for i in range(w)]


def f32_to_bits(x):
    return int_to_bits(struct.unpack("<I", struct.pack("<f", x))[0], 32)


def f64_to_bits(x):
    return int_to_bits(struct.unpack("<Q", struct.pack("<d", x))[0], 64)


def bits_to_f32(bits):
    return struct.unpack("<f", struct.pack("<I", bits_to_int(bits)))[0]


def bits_to_f64(bits):
    return struct.unpack("<d", struct.pack("<Q", bits_to_int(bits)))[0]


# -------------------------------------------------------------------- schemas
def find(seq, name):
    for x in seq:
        if x["name"] == name:
            return x
    raise KeyError(name)


def type_text(t):
    k = t["k"]
    if k == "u":
        return "u%d" % t["w"]
    if k == "i":
        return "i%d" % t["w"]
    if k in ("f32", "f64", "str"):
        return k
    if k == "arr":
        return "[%s, %d]" % (type_text(t["t"]), t["n"])
    if k == "dyn":
        return "[%s]" % type_text(t["t"])
    if k == "opt":
        return "Optional[%s]" % type_text(t["t"])
    if k in ("struct", "enum"):
        return t["name"]
    raise ValueError(t)


def lit_text(v):
    """An extension-field / parameter value: {"i": int} {"f": "1.5"} {"s": str} {"id": name} {"a": [..]}"""
    if "i" in v:
        return str(v["i"])
    if "f" in v:
        return v["f"]
    if "s" in v:
        return '"%s"' % v["s"]
    if "id" in v:
        return v["id"]
    if "a" in v:
        return "[" + ", ".join(lit_text(x) for x in v["a"]) + "]"
    raise ValueError(v)


def lit_py(v):
    if "i" in v:
        return v["i"]
    if "f" in v:
        return float(v["f"])
    if "s" in v:
        return v["s"]
    if "id" in v:
        return v["id"]
    if "a" in v:
        return [lit_py(x) for x in v["a"]]
    raise ValueError(v)


def _decl_text(kind, d):
    out = []
    if kind == "enum":
        out.append("enum %s {" % d["name"])
        for it in d["items"]:
            out.append("    %s = %d," % (it["name"], abs_to_int(it["value"])))
        out.append("}")
    elif kind == "struct":
        out.append("struct %s {" % d["name"])
        for f in d["fields"]:
            params = ""
            if f.get("unit") is not None:
                params += ' | unit("%s")' % f["unit"]
            if f.get("range") is not None:
                params += " | range(%s, %s)" % (f["range"][0], f["range"][1])
            out.append("    %s @%d: %s%s," % (f["name"], f["id"], type_text(f["type"]), params))
        out.append("}")
    elif kind == "impl":
        name = d.get("name")
        head = "impl %s for %s" % (d["protocol"], d["type"])
        if name is not None and name != d["type"]:
            head += " as %s" % name
        out.append(head + " {")
        fields = d.get("fields", [])
        # the grammar lets extension fields and signal blocks come in any order: some bindings get their last field AFTER the blocks
        late = 1 if d.get("signals") and len(fields) >= 2 and (len(fields) + len(d.get("signals"))) % 2 == 1 else 0
        for f in fields[:len(fields) - late]:
            out.append("    %s: %s," % (f["name"], lit_text(f["value"])))
        for s in d.get("signals", []):
            out.append("    signal %s {" % s["name"])
            for f in s["fields"]:
                out.append("        %s: %s," % (f["name"], lit_text(f["value"])))
            out.append("    },")
        for f in fields[len(fields) - late:]:
            out.append("    %s: %s," % (f["name"], lit_text(f["value"])))
        out.append("}")
    elif kind == "service":
        out.append("service %s @%d {" % (d["name"], d["id"]))
        for m in d["methods"]:
            out.append("    method %s(%s) @%d returns %s," % (m["name"], m["input"], m["id"], m["output"]))
        out.append("}")
    elif kind == "device":
        out.append("device %s {" % d["name"])
        for f in d["fields"]:
            out.append("    %s: %s," % (f["name"], lit_text(f["value"])))
        out.append("}")
    elif kind == "mod":
        out.append("mod %s;" % d["path"])
    else:
        raise ValueError(kind)
    return "\n".join(out)


def schema_text(sch):
    """Canonical formatting.  Enums first, then structs in the given order (declare
    before use is the generator's responsibility), then impls, services, devices -
    unless sch["order"] lists [kind, index] pairs explicitly."""
    parts = ['version: "3"', ""]
    if "order" in sch:
        for kind, i in sch["order"]:
            parts.append(_decl_text(kind, sch[kind + "s"][i]))
            parts.append("")
    else:
        for kind in ("enum", "struct", "impl", "service", "device"):
            for d in sch.get(kind + "s", []):
                parts.append(_decl_text(kind, d))
                parts.append("")
    return "\n".join(parts)


# --------------------------------------------------------------------- values
class BadValue(Exception):
    pass


def to_py(sch, t, v):
    """abstract value -> the Python value the fcp API takes"""
    k = t["k"]
    if k in ("u", "i", "enum"):
        return abs_to_int(v)
    if k == "f32":
        return bits_to_f32(v)
    if k == "f64":
        return bits_to_f64(v)
    if k == "str":
        return "".join(chr(c) for c in v)
    if k in ("arr", "dyn"):
        return [to_py(sch, t["t"], x) for x in v]
    if k == "opt":
        return None if len(v) == 0 else to_py(sch, t["t"], v[0])
    if k == "struct":
        st = find(sch["structs"], t["name"])
        return {f["name"]: to_py(sch, f["type"], v[f["name"]]) for f in st["fields"]}
    raise ValueError(t)


def from_py(sch, t, x):
    """Python value returned by the fcp API -> abstract value.  Raises BadValue when
    the Python value does not even have the shape of the type."""
    k = t["k"]
    try:
        if k in ("u", "i", "enum"):
            if isinstance(x, bool) or not isinstance(x, int):
                raise BadValue("not an int: %r" % (x,))
            return int_to_abs(x)
        if k == "f32":
            if not isinstance(x, float):
                raise BadValue("not a float: %r" % (x,))
            if x == x and bits_to_f32(f32_to_bits(x)) != x:
                raise BadValue("not representable as f32: %r" % (x,))
            return f32_to_bits(x)
        if k == "f64":
            if not isinstance(x, float):
                raise BadValue("not a float: %r" % (x,))
            return f64_to_bits(x)
        if k == "str":
            if not isinstance(x, str):
                raise BadValue("not a str: %r" % (x,))
            return [ord(c) for c in x]
        if k in ("arr", "dyn"):
            if not isinstance(x, (list, tuple)):
                raise BadValue("not a list: %r" % (x,))
            return [from_py(sch, t["t"], y) for y in x]
        if k == "opt":
            return [] if x is None else [from_py(sch, t["t"], x)]
        if k == "struct":
            st = find(sch["structs"], t["name"])
            if not isinstance(x, dict) or set(x.keys()) != {f["name"] for f in st["fields"]}:
                raise BadValue("not a dict of the struct's fields: %r" % (x,))
            return {f["name"]: from_py(sch, f["type"], x[f["name"]]) for f in st["fields"]}
    except (OverflowError, struct.error) as e:
        raise BadValue(str(e))
    raise ValueError(t)


def strip_gen(sch):
    """remove generator-only keys (gd) so that schemas compare/print cleanly"""
    if isinstance(sch, dict):
        return {k: strip_gen(v) for k, v in sch.items() if k != "gd"}
    if isinstance(sch, list):
        return [strip_gen(x) for x in sch]
    return sch
