"""C03 / C13 / C18: the generated C++ (static codec, reflection-loaded codec, CAN wrapper)."""
import json
import os
import random
import shutil
from concurrent.futures import ThreadPoolExecutor

from . import core, tlc, glue, randgen, cppdriver, pycodec
from .chk_wire import trace_wire, canaries, check_canaries, feature, shape_key, SchemaCache
from .chk_layout import abs_for_text


def hexs(b):
    return bytes(b).hex() or "-"


def unhex(h):
    return [] if h == "-" else list(bytes.fromhex(h))


def mega_cases(chk, slice_no):
    res = tlc.run("MC_WireMega", workdir=chk.workdir, env={"MEGA_SLICE": str(slice_no)}, timeout=2400, heap="6g")
    chk.add_tlc(res, "MC_WireMega[slice %d]" % slice_no)
    sch, table, cases = None, None, []
    for o in res.out:
        if o["kind"] == "schema":
            sch, table = glue.strip_gen(o["schema"]), o["table"]
        else:
            cases.append(o)
    cases.sort(key=lambda c: json.dumps(c, sort_keys=True))
    return abs_for_text(sch), table, cases


def build_schema(sch, outdir, units=False, sanitize=False):
    if units:
        # units do not touch the wire format, but they travel through the reflection binary the run-time codec loads:
        # give a few fields a unit, one of them outside ASCII (a degree sign, as in the project's own README)
        sch = json.loads(json.dumps(sch))
        for i, st in enumerate(sch["structs"][:6]):
            st["fields"][0]["unit"] = ["\u00b0C", "m/s", "\u00b5V"][i % 3]
    fcp, text = pycodec.parse_schema(sch)
    st, exe = cppdriver.build(fcp, outdir, sanitize=sanitize)
    return st, exe, text


def codec_lines(sch, cases, dynamic=True):
    """per case: static encode of the value, static decode of the canonical bytes (+ the same through the dynamic codec)"""
    lines = []
    for c in cases:
        t = {"k": "struct", "name": c["struct"]}
        lines.append("SE %s %s" % (c["struct"], " ".join(cppdriver.val_tokens(sch, t, c["value"], False))))
        lines.append("SD %s %s" % (c["struct"], hexs(c["bytes"])))
        if dynamic:
            lines.append("DE %s %s" % (c["struct"], " ".join(cppdriver.val_tokens(sch, t, c["value"], True))))
            lines.append("DD %s %s" % (c["struct"], hexs(c["bytes"])))
    return lines


def parse_enc(ans):
    """-> ("ok", [bytes]) | (status, text)"""
    if ans.startswith("ok "):
        return "ok", unhex(ans[3:].strip())
    return ans.split(" ")[0], ans


def parse_dec(sch, struct, ans, enum_names):
    if ans.startswith("ok"):
        toks = ans.split()[1:]
        try:
            v, _ = cppdriver.parse_tokens(sch, {"k": "struct", "name": struct}, toks, 0, enum_names)
            return "ok", v
        except cppdriver.BadShape as e:
            return "badshape", "%s in %s" % (e, ans[:200])
    return ans.split(" ")[0], ans


def struct_feature(sch, name):
    return feature(sch, name)


def classify_bytes(sch, name, canon, got):
    """how do the observed bytes deviate from the canonical ones (for signatures)"""
    st = glue.find(sch["structs"], name)
    if len(got) > len(canon):
        return "longer-than-canonical"
    if len(got) < len(canon):
        return "shorter-than-canonical"
    return "bytes-differ"


def run_codec(chk, sch, exe, cases, pid, mode):
    """drive static+dynamic codec on the cases; report violations for the property pid (C03 or C13)"""
    dyn = pid != "C03"
    n = 4 if dyn else 2
    ans = cppdriver.run(exe, codec_lines(sch, cases, dyn))
    for i, c in enumerate(cases):
        name, val, canon = c["struct"], c["value"], c["bytes"]
        a = ans[n * i:n * i + n]
        if len(a) < n:
            raise core.Machinery("C++ driver returned too few answers")
        if not dyn:
            a = a + ["none", "none"]
        se, sd = parse_enc(a[0]), parse_dec(sch, name, a[1], False)
        de, dd = parse_enc(a[2]), parse_dec(sch, name, a[3], True)
        feat = struct_feature(sch, name)
        ctx = {"mode": mode, "struct": glue.find(sch["structs"], name), "value": val, "canonical_bytes": canon}
        chk.count(2, traces=2)
        chk.distinct(shape_key(sch, name) + json.dumps(val, sort_keys=True))
        s_enc_ok = se == ("ok", canon)
        s_dec_ok = sd == ("ok", val)
        d_enc_ok = de == ("ok", canon)
        d_dec_ok = dd == ("ok", val)
        if pid == "C03":
            if not s_enc_ok:
                dev = se[0] if se[0] != "ok" else classify_bytes(sch, name, canon, se[1])
                chk.violation("cpp.static.encode:%s:%s" % (feat, dev), dict(ctx, observed=a[0]))
            if not s_dec_ok:
                dev = sd[0] if sd[0] != "ok" else "value-differs"
                chk.violation("cpp.static.decode:%s:%s" % (feat, dev), dict(ctx, observed=a[1], parsed=sd[1] if sd[0] == "ok" else None))
        else:
            # C13: the run-time codec must behave like the static one; TLC's canonical bytes say which side is off
            if de != se:
                side = "dynamic-off" if s_enc_ok else ("static-off" if d_enc_ok else "both-off")
                dev = de[0] if de[0] != "ok" else classify_bytes(sch, name, canon, de[1])
                chk.violation("cpp.dynamic.encode:%s:%s:%s" % (feat, side, dev), dict(ctx, static=a[0], dynamic=a[2]))
            if dd != sd:
                side = "dynamic-off" if s_dec_ok else ("static-off" if d_dec_ok else "both-off")
                dev = dd[0] if dd[0] != "ok" else "value-differs"
                chk.violation("cpp.dynamic.decode:%s:%s:%s" % (feat, side, dev), dict(ctx, static=a[1], dynamic=a[3]))
        chk.sample({"struct": glue.find(sch["structs"], name), "value": val, "canonical": canon,
                    "static": a[:2], "dynamic": a[2:]}, cap=2)


def rand_mega(rng, nstructs):
    """random schema with many structs over the full type grammar (no CAN bindings)"""
    sch = randgen.rand_schema(rng, depth=3, nstructs=4)
    base = sch["structs"]
    for i in range(nstructs - len(base)):
        nf = rng.randint(1, 4)
        ids = rng.sample(range(12), nf)
        sch["structs"].append({"name": "Sx%d" % i,
                               "fields": [{"name": randgen.NAMES_F[j], "id": ids[j],
                                           "type": randgen.rand_type(rng, sch["enums"], base, 3)} for j in range(nf)]})
    return sch


def rpc_leg(chk):
    """schemas with services: the rpc wrapper types the generator adds must compile and encode canonically (Rpc.tla)"""
    res = tlc.run("Gen_Rpc", workdir=chk.workdir, env={}, timeout=900, heap="2g")
    chk.add_tlc(res, "Gen_Rpc")
    schemas = [o for o in res.out if o["kind"] == "schema"]
    n = 0
    for si, so in enumerate(sorted(schemas, key=lambda o: json.dumps(o["schema"], sort_keys=True))):
        base = abs_for_text(glue.strip_gen(so["schema"]))
        ext = abs_for_text(glue.strip_gen(so["extended"]))
        cases = sorted([c for c in res.out if c["kind"] == "case" and c["services"] == so["schema"]["services"]],
                       key=lambda c: json.dumps(c, sort_keys=True))
        out = os.path.join(chk.workdir, "rpc%d" % si)
        st, exe, text = build_schema(base, out)
        n += 1
        chk.count(1)
        svc = "+".join(s["name"] for s in base["services"])
        if st != "ok":
            chk.violation("cpp:%s:services[%s]" % (st, svc), {"mode": "G", "schema_text": text, "info": exe})
            continue
        lines = []
        for c in cases:
            t = {"k": "struct", "name": c["struct"]}
            lines.append("SE %s %s" % (c["struct"], " ".join(cppdriver.val_tokens(ext, t, c["value"], False))))
            lines.append("SD %s %s" % (c["struct"], hexs(c["bytes"])))
        ans = cppdriver.run(exe, lines)
        for i, c in enumerate(cases):
            chk.count(2, traces=2)
            chk.distinct("rpc" + json.dumps([c["struct"], c["value"]], sort_keys=True))
            se = parse_enc(ans[2 * i])
            sd = parse_dec(ext, c["struct"], ans[2 * i + 1], False)
            ctx = {"mode": "G", "services": base["services"], "wrapper": c["struct"], "value": c["value"], "canonical_bytes": c["bytes"]}
            if se != ("ok", c["bytes"]):
                chk.violation("cpp.static.encode:rpc-wrapper:%s" % (se[0] if se[0] != "ok" else "bytes-differ"), dict(ctx, observed=ans[2 * i]))
            if sd != ("ok", c["value"]):
                chk.violation("cpp.static.decode:rpc-wrapper:%s" % (sd[0] if sd[0] != "ok" else "value-differs"), dict(ctx, observed=ans[2 * i + 1]))
        shutil.rmtree(out, ignore_errors=True)
    chk.notes["rpc_schemas"] = n
    return n


def run_codec_check(pid, tier, seed):
    chk = core.Check(pid, tier, seed, "model_checking")
    rng = random.Random(seed)
    slices = [seed % 12] if tier == "quick" else list(range(12))
    programs = 0
    for sl in slices:
        sch, table, cases = mega_cases(chk, sl)
        out = os.path.join(chk.workdir, "mega%d" % sl)
        # ASan + UBSan build (shared with C18 through the compile cache): a memory error ends the process -> "crashed"
        st, exe, text = build_schema(sch, out, units=(pid == "C13"), sanitize=True)
        programs += 1
        chk.count(1)
        if st != "ok":
            if pid == "C03":
                chk.violation("cpp:%s" % st, {"mode": "G", "schema_text": text[:3000], "info": exe})
            else:
                raise core.Machinery("C++ for the mega schema could not be built (%s: %s): C03's business" % (st, exe))
            continue
        chk.notes.setdefault("cases_per_program", []).append(len(cases))
        run_codec(chk, sch, exe, cases, pid, "G")
        shutil.rmtree(out, ignore_errors=True)
    if pid == "C03":
        programs += rpc_leg(chk)
    # (T) random programs far outside the MC bounds, each value judged by Trace_Wire
    nprog, nst, nval = (2, 25, 4) if tier == "quick" else (16, 40, 8)
    jobs = []
    for p in range(nprog):
        sch = rand_mega(rng, nst)
        cases = []
        for s in sch["structs"]:
            for _ in range(nval):
                cases.append({"struct": s["name"], "value": randgen.rand_value(rng, sch, {"k": "struct", "name": s["name"]})})
        jobs.append((sch, cases, os.path.join(chk.workdir, "rand%d" % p)))
    with ThreadPoolExecutor(max_workers=8) as ex:
        built = list(ex.map(lambda j: build_schema(j[0], j[2]), jobs))
    for (sch, cases, out), (st, exe, text) in zip(jobs, built):
        programs += 1
        chk.count(1)
        if st != "ok":
            if pid == "C03":
                chk.violation("cpp:%s" % st, {"mode": "T", "schema_text": text[:3000], "info": exe})
            continue
        # oracle: canonical bytes for the random values
        req = [{"id": "q%d" % i, "kind": "enc", "schema": sch, "root": c["struct"], "value": c["value"], "ok": 1, "bytes": []}
               for i, c in enumerate(cases)]
        ans = trace_wire(chk, req, "Trace_Wire[oracle]")
        for r, c in zip(req, cases):
            if ans[r["id"]]["clause"].startswith("glue:"):
                raise core.Machinery("random generator produced an out-of-range value")
            c["bytes"] = ans[r["id"]]["canon"]
        # recorded calls, judged by TLC
        if pid != "C03":
            run_codec(chk, sch, exe, cases, pid, "T")
            shutil.rmtree(out, ignore_errors=True)
            continue
        lines = codec_lines(sch, cases, False)
        got = cppdriver.run(exe, lines)
        events, emeta = [], {}
        for i, c in enumerate(cases):
            a = got[2 * i:2 * i + 2] + ["none", "none"]
            for side, ea, da, names in (("static", a[0], a[1], False), ("dynamic", a[2], a[3], True)):
                if (pid == "C03") != (side == "static"):
                    continue
                e = parse_enc(ea)
                d = parse_dec(sch, c["struct"], da, names)
                eid = "%s-e%d" % (side, i)
                events.append({"id": eid, "kind": "enc", "schema": sch, "root": c["struct"], "value": c["value"],
                               "ok": 1 if e[0] == "ok" else 0, "bytes": e[1] if e[0] == "ok" else []})
                emeta[eid] = (c, side, "encode", ea)
                did = "%s-d%d" % (side, i)
                events.append({"id": did, "kind": "dec", "schema": sch, "root": c["struct"], "bytes": c["bytes"],
                               "ok": 1 if d[0] == "ok" else 0, "value": d[1] if d[0] == "ok" else []})
                emeta[did] = (c, side, "decode", da)
        cans = canaries(events, rng, n=4)
        verd = trace_wire(chk, events + cans, "Trace_Wire[C++ calls]")
        check_canaries(verd, cans)
        chk.notes["canaries_rejected"] = chk.notes.get("canaries_rejected", 0) + len(cans)
        if pid == "C03":
            for e in events:
                c, side, what, raw = emeta[e["id"]]
                chk.count(1, traces=1)
                chk.distinct(shape_key(sch, c["struct"]) + json.dumps(c["value"], sort_keys=True))
                cl = verd[e["id"]]["clause"]
                if cl != "ok":
                    chk.violation("cpp.static.%s:%s:%s" % (what, struct_feature(sch, c["struct"]), cl.split(":")[-1]),
                                  {"mode": "T", "struct": glue.find(sch["structs"], c["struct"]), "value": c["value"],
                                   "canonical_bytes": c["bytes"], "observed": raw, "clause": cl})
        shutil.rmtree(out, ignore_errors=True)
    chk.coverage["programs"] = programs
    chk.assumptions += ["'compiles' = g++ --std=c++17 -O0 -w exits 0 on the generic driver including fcp.h, dynamic.h, can_static_schema.h and "
                        "can_dynamic_schema.h", "floats reach the C++ code as IEEE words materialised by memcpy; NaN payloads are outside the domain",
                        "an empty dynamic array reported as JSON null is read as [] (nlohmann's `json j{}` idiom)",
                        "identifiers are valid C++ identifiers"]
    if pid == "C03":
        rule = ("programs = schemas given to fcp_cpp and compiled: %d mega-schema(s) of ~190 root structs from MC_WireMega (every type of the "
                "pool as a single field + a slice of the prefix x type x id-order family; RoundTrip invariant) and %d random programs of %d "
                "structs (depth 3, widths 1..64); per struct and boundary / random value: EncodeJson == canonical bytes, DecodeJson(canonical "
                "bytes) == value (random ones judged by Trace_Wire); distinct = (struct shape, value)" % (len(slices), nprog, nst))
    else:
        rule = ("same programs as C03, each run-time codec loading the reflection binary the Python tool produces for that very schema; per "
                "struct and value: dynamic EncodeJson == static EncodeJson and dynamic DecodeJson(canonical) == static DecodeJson(canonical) "
                "(enumerators named vs numbered), TLC's canonical bytes / value telling which side deviates; distinct = (struct shape, value)")
    return chk.finish(rule)


def run_c03(tier, seed):
    return run_codec_check("C03", tier, seed)


def run_c13(tier, seed):
    return run_codec_check("C13", tier, seed)


# ------------------------------------------------------------------------ C18
def frame_tokens(f):
    return "%s %d %d %s" % (hexs(f["bus"]), f["sid"], f["dlc"], hexs(f["data"]))


def parse_frame_ans(ans):
    if ans.startswith("ok "):
        p = ans.split()
        return "ok", {"bus": unhex(p[1]), "sid": int(p[2]), "dlc": int(p[3]), "data": unhex(p[4])}
    return ans.split(" ")[0], ans


def parse_can_dec(sch, ans, enum_names):
    if ans.startswith("ok "):
        p = ans.split()
        name = p[1]
        try:
            v, _ = cppdriver.parse_tokens(sch, {"k": "struct", "name": name}, p[2:], 0, enum_names)
            return "ok", (name, v)
        except (cppdriver.BadShape, KeyError) as e:
            return "badshape", "%s in %s" % (e, ans[:200])
    return ans.split(" ")[0], ans


def run_c18(tier, seed):
    chk = core.Check("C18", tier, seed, "model_checking")
    rng = random.Random(seed)
    slices = [seed % 12] if tier == "quick" else list(range(0, 12, 2))
    for sl in slices:
        sch, table, cases = mega_cases(chk, sl)
        out = os.path.join(chk.workdir, "mega%d" % sl)
        # built with ASan + UBSan: a memory error in the wrapper ends the process and the command is answered "crashed"
        st, exe, text = build_schema(sch, out, sanitize=True)
        if st != "ok":
            raise core.Machinery("C++ for the mega schema could not be built (%s: %s): C03's business" % (st, exe))
        can_cases = [c for c in cases if c["can"]]
        chk.notes.setdefault("bindings", []).append(len(table))
        lines = []
        for c in can_cases:
            t = {"k": "struct", "name": c["struct"]}
            fr = c["can"][0]["frame"]
            lines.append("CSE %s %s" % (c["struct"], " ".join(cppdriver.val_tokens(sch, t, c["value"], False))))
            lines.append("CSD " + frame_tokens(fr))
            lines.append("CDE %s %s" % (c["struct"], " ".join(cppdriver.val_tokens(sch, t, c["value"], True))))
            lines.append("CDD " + frame_tokens(fr))
            for pr in c["can"][0]["probes"]:
                lines.append("CSD " + frame_tokens(pr))
                lines.append("CDD " + frame_tokens(pr))
        ans = cppdriver.run(exe, lines)
        p = 0
        for c in can_cases:
            fr = c["can"][0]["frame"]
            name, val = c["struct"], c["value"]
            buslen = len([b for b in fr["bus"] if b])
            ctx = {"struct": glue.find(sch["structs"], name), "binding": [b for b in table if b["name"] == name][0],
                   "value": val, "specified_frame": fr}
            a = ans[p:p + 4]
            p += 4
            chk.count(4, traces=4)
            chk.distinct(json.dumps([name, val], sort_keys=True))
            for side, ea, da, names in (("static", a[0], a[1], False), ("dynamic", a[2], a[3], True)):
                e = parse_frame_ans(ea)
                if e != ("ok", fr):
                    dev = e[0]
                    if e[0] == "ok":
                        dev = next(k for k in ("sid", "bus", "dlc", "data") if e[1][k] != fr[k])
                    chk.violation("cpp.can.%s.encode:%s:bus-len-%d" % (side, dev, buslen), dict(ctx, observed=ea))
                d = parse_can_dec(sch, da, names)
                if d != ("ok", (name, val)):
                    dev = d[0] if d[0] != "ok" else ("name" if d[1][0] != name else "value")
                    if d[0] == "none":
                        dev = "reported-unknown"
                    chk.violation("cpp.can.%s.decode:%s:bus-len-%d" % (side, dev, buslen), dict(ctx, observed=da))
            for pr in c["can"][0]["probes"]:
                for side in ("static", "dynamic"):
                    r = ans[p]
                    p += 1
                    chk.count(1, traces=1)
                    if not r.startswith("none"):
                        chk.violation("cpp.can.%s.decode:unknown-frame-decoded" % side, dict(ctx, probe=pr, observed=r))
            chk.sample({"binding": ctx["binding"], "value": val, "frame": fr, "answers": a}, cap=2)
        shutil.rmtree(out, ignore_errors=True)
    chk.assumptions += ["bindings are named after their struct and declare a bus of 1..4 characters; the bus tag of a frame is the bus name padded "
                        "with NULs to four characters", "payloads of at most 8 bytes"]
    return chk.finish(
        "(M) MC_WireMega: DecodeEncode, UnknownIffNoBinding, UniqueKeys over 48 CAN bindings (ids 0, 1, 10, 2047 and others, bus names of "
        "1..4 characters) x boundary values; (G) per binding and value: Encode(name, value) through CanStaticSchema and CanDynamicSchema "
        "compared field by field with CanEncode, Decode of the SPECIFIED frame compared with (name, value), and the probe frames (id+-1, "
        "another bus, unused id) must be reported unknown; distinct = (binding, value)")
