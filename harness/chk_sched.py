"""C19: the generated C scheduler against Sched.tla."""
import json
import os
import random
import shutil
from concurrent.futures import ThreadPoolExecutor

from . import core, tlc, glue, cdriver
from .chk_wire import SchemaCache
from .chk_layout import abs_for_text


def hist_line(sch, events, dev="ecu"):
    toks = ["S", dev]
    for e in events:
        if e["op"] == "T":
            toks += ["T", str(glue.bits_to_int(e["t"]))]
        else:
            st = glue.find(sch["structs"], glue.find(sch["impls"], e["msg"])["type"])       # a binding may be an alias of a struct
            toks += [e["msg"]] + cdriver.value_tokens(sch, st, e["value"])
    return " ".join(toks)


def parse_hist_output(line, id2msg):
    """'S T [id dlc data] [..] T ...' -> list (one per call) of lists of {msg, frame}"""
    if not line.startswith("S") or "CRASH" in line:
        return None
    calls = []
    for seg in line[1:].split(" T")[1:]:
        frames = []
        for fr in seg.replace("]", "").split("[")[1:]:
            p = fr.split()
            fid, dlc, data = int(p[0]), int(p[1]), [int(p[2][i:i + 2], 16) for i in range(0, 16, 2)]
            frames.append({"msg": id2msg.get(fid, "?%d" % fid), "frame": {"id": fid, "dlc": dlc, "data": data}})
        calls.append(frames)
    return calls


def build_device(job):
    sch, outdir, fcp = job
    shutil.rmtree(outdir, ignore_errors=True)
    os.makedirs(outdir)
    st, info = cdriver.generate_c(fcp, outdir)
    if st != "ok":
        return ("generate-raised", info)
    return cdriver.build(sch, outdir, sched=True)


def dev_key(sch):
    return json.dumps([[f for f in im["fields"] if f["name"] in ("period", "id")] for im in sch["impls"]], sort_keys=True)


def id_map(sch):
    return {[f["value"]["i"] for f in im["fields"] if f["name"] == "id"][0]: im["name"] for im in sch["impls"]}


def periods(sch):
    out = []
    for im in sch["impls"]:
        p = [f["value"]["i"] for f in im["fields"] if f["name"] == "period"]
        out.append(p[0] if p else -1)
    return out


def hist_class(sch, events):
    """input class of a history for signatures: which delta kinds it contains"""
    ts = [glue.bits_to_int(e["t"]) for e in events if e["op"] == "T"]
    feats = set()
    prev = 0
    for t in ts:
        d = (t - prev) % (1 << 32)
        if d == 0:
            feats.add("same-tick")
        elif t < prev:
            feats.add("wrap")
        prev = t
    return "+".join(sorted(feats)) or "monotone"


def rand_device(rng, k):
    """a schema with one or two devices; messages are spread over them"""
    n = rng.randint(1, 4)
    two = rng.random() < 0.5
    structs, impls = [], []
    for i in range(1, n + 1):
        p = rng.choice([-1, 1, 2, 3, 5, 10, 100, 1000, rng.randint(1, 50)])
        structs.append({"name": "M%d" % i, "fields": [{"name": "fa", "id": 0, "type": {"k": "u", "w": rng.choice([3, 8, 16])}},
                                                      {"name": "fb", "id": 1, "type": {"k": "i", "w": rng.choice([5, 12, 32])}}]})
        fl = [{"name": "id", "value": {"i": 10 * k + i}},
              {"name": "device", "value": {"s": "bms" if two and rng.random() < 0.5 else "ecu"}}]
        if p != -1:
            fl.append({"name": "period", "value": {"i": p}})
        impls.append({"name": "M%d" % i, "protocol": "can", "type": "M%d" % i, "fields": fl, "signals": []})
    return {"structs": structs, "enums": [], "impls": impls}


def dev_impls(sch, dev):
    return [im for im in sch["impls"] if cdriver.device_of(im) == dev]


def rand_history(rng, sch, length, dev="ecu"):
    mine = dev_impls(sch, dev)
    ps = [p for p, im in zip(periods(sch), sch["impls"]) if p != -1 and im in mine] or [3]
    t = 0
    ev = []
    for _ in range(length):
        if rng.random() < 0.2 and mine:
            im = rng.choice(mine)
            st = glue.find(sch["structs"], im["type"])
            v = {}
            for f in st["fields"]:
                w = f["type"]["w"]
                if f["type"]["k"] == "u":
                    v[f["name"]] = glue.int_to_abs(rng.getrandbits(w))
                else:
                    v[f["name"]] = glue.int_to_abs(rng.randint(-(1 << (w - 1)), (1 << (w - 1)) - 1))
            ev.append({"op": "V", "msg": im["name"], "value": v})
            continue
        p = rng.choice(ps)
        d = rng.choice([0, 1, p - 1, p, p + 1, 2 * p, rng.randint(0, 3 * p), (1 << 32) - 1, (1 << 32) - p, (1 << 31), rng.getrandbits(32)])
        t = (t + d) % (1 << 32)
        ev.append({"op": "T", "t": glue.int_to_bits(t, 32), "sent": []})
    return ev


def run_c19(tier, seed):
    chk = core.Check("C19", tier, seed, "model_checking")
    rng = random.Random(seed)
    cache = SchemaCache()
    # (M) exhaustive small-clock model
    res = tlc.run("MC_Sched", workdir=chk.workdir, env={"SCHED_MSGS": "2" if tier == "quick" else "3"},
                  timeout=3000, heap="6g", coverage=True)
    chk.add_tlc(res, "MC_Sched[W=3]")
    for a in ("Step", "Poke"):
        if res.coverage.get(a, (0, 0))[0] == 0:
            raise core.Machinery("MC_Sched: action %s never taken" % a)
    # (G) histories over the 32 bit clock
    gen = tlc.run("Gen_Sched", workdir=chk.workdir, env={"SCHED_DEPTH": "4" if tier == "quick" else "5"},
                  timeout=3000, heap="8g")
    chk.add_tlc(gen, "Gen_Sched[W=32]")
    by_dev = {}
    for o in gen.out:
        d = glue.strip_gen(o["device"])
        d.pop("periods", None)
        by_dev.setdefault(json.dumps(d, sort_keys=True), []).append(o["hist"])
    chk.notes["histories_emitted"] = len(gen.out)
    limit = 2500 if tier == "quick" else 40000
    devs = []
    for key in sorted(by_dev):
        sch = abs_for_text(json.loads(key))
        hs = sorted(by_dev[key], key=lambda h: json.dumps(h, sort_keys=True))
        if len(hs) > limit:
            rng.shuffle(hs)
            hs = hs[:limit]
        devs.append((sch, hs))
    # (T) random devices / long histories
    nd, nh, hl = (6, 150, 30) if tier == "quick" else (40, 400, 40)
    rdevs = []
    hdev = {}
    for k in range(nd):
        sch = rand_device(rng, k)
        hs = []
        for _ in range(nh):
            d = rng.choice(sorted({cdriver.device_of(im) for im in sch["impls"]}))
            h = rand_history(rng, sch, rng.randint(5, hl), d)
            hs.append(h)
            hdev[id(h)] = d
        rdevs.append((sch, hs))
    jobs = [(sch, os.path.join(chk.workdir, "dev%d" % i), cache.get(sch)) for i, (sch, _) in enumerate(devs + rdevs)]
    with ThreadPoolExecutor(max_workers=16) as ex:
        built = list(ex.map(build_device, jobs))
    traces, tmeta = [], {}
    for di, ((sch, hs), (st, exe)) in enumerate(zip(devs + rdevs, built)):
        is_gen = di < len(devs)
        if st != "ok":
            chk.count(1)
            chk.violation("can_c.sched:%s" % st, {"schema_text": glue.schema_text(sch), "info": exe})
            continue
        rc, out = cdriver.run_driver(exe, [hist_line(sch, h, hdev.get(id(h), "ecu")) for h in hs], timeout=600)
        idm = id_map(sch)
        for hi, h in enumerate(hs):
            obs = parse_hist_output(out[hi] if hi < len(out) else "", idm)
            ncall = sum(1 for e in h if e["op"] == "T")
            chk.count(1, traces=1)
            chk.distinct(dev_key(sch) + json.dumps([e.get("t", e.get("value")) for e in h]))
            if obs is None or len(obs) != ncall:
                chk.violation("can_c.sched:driver-crashed", {"schema_text": glue.schema_text(sch), "history": hist_line(sch, h),
                                                             "output": out[hi] if hi < len(out) else None})
                continue
            if is_gen:
                # compare with what TLC printed for this very history
                k = 0
                for ei, e in enumerate(h):
                    if e["op"] != "T":
                        continue
                    if obs[k] != e["sent"]:
                        what = ("frame-count" if len(obs[k]) != len(e["sent"]) else
                                "which-messages" if [x["msg"] for x in obs[k]] != [x["msg"] for x in e["sent"]] else "frame-contents")
                        chk.violation("can_c.sched:%s:%s" % (what, hist_class(sch, h[:ei + 1])),
                                      {"mode": "G", "schema_text": glue.schema_text(sch), "history": hist_line(sch, h),
                                       "call_index": k, "time": glue.bits_to_int(e["t"]), "expected": e["sent"], "observed": obs[k]})
                        break
                    k += 1
                chk.sample({"device_periods": periods(sch), "history": hist_line(sch, h),
                            "expected_frames_per_call": [e["sent"] for e in h if e["op"] == "T"]}, cap=2)
            else:
                k = 0
                evs = []
                for e in h:
                    if e["op"] == "T":
                        evs.append({"op": "T", "t": e["t"], "sent": obs[k]})
                        k += 1
                    else:
                        evs.append(e)
                tid = "d%d-h%d" % (di, hi)
                traces.append({"id": tid, "device": sch, "dev": hdev.get(id(h), "ecu"), "events": evs})
                tmeta[tid] = (sch, h)
        # the schedulers of all devices of the schema called in ONE process, often with the same timestamp one after the other:
        # each device's own calls must still be a behaviour of its own Sched machine (the devices share nothing)
        sdevs = sorted({cdriver.device_of(im) for im in sch["impls"]} - {"global"})
        if not is_gen and len(sdevs) >= 2:
            xlines, xseqs = [], []
            for xi in range(20 if tier == "quick" else 150):
                t, seq = 0, []
                for _ in range(rng.randint(4, 24)):
                    if rng.random() < 0.6:
                        t = (t + rng.choice([0, 1, 2, 3, 5, 7, 10, 100, (1 << 32) - 1, rng.randint(0, 40)])) % (1 << 32)
                    seq.append((rng.choice(sdevs), t))
                xseqs.append(seq)
                xlines.append("X " + " ".join("%s %d" % (d, t) for d, t in seq))
            rcx, outx = cdriver.run_driver(exe, xlines, timeout=600)
            for xi, seq in enumerate(xseqs):
                obs = parse_hist_output("S" + outx[xi][1:] if xi < len(outx) and outx[xi].startswith("X") else "", idm)
                chk.count(1, traces=1)
                if obs is None or len(obs) != len(seq):
                    chk.violation("can_c.sched:driver-crashed:several-devices", {"schema_text": glue.schema_text(sch), "calls": seq,
                                                                                "output": outx[xi] if xi < len(outx) else None})
                    continue
                for d in sdevs:
                    evs = [{"op": "T", "t": glue.int_to_bits(t, 32), "sent": o} for (dd, t), o in zip(seq, obs) if dd == d]
                    if not evs:
                        continue
                    tid = "d%d-x%d-%s" % (di, xi, d)
                    traces.append({"id": tid, "device": sch, "dev": d, "events": evs})
                    tmeta[tid] = (sch, [{"op": "T", "t": e["t"], "sent": []} for e in evs])
        shutil.rmtree(os.path.dirname(exe), ignore_errors=True)
    # canaries: an extra frame / a dropped frame / a changed byte must be rejected
    cans = []
    for t in [t for t in traces if any(e["op"] == "T" and e["sent"] for e in t["events"])][:6]:
        c = json.loads(json.dumps(t))
        c["id"] = "canary-" + t["id"]
        e = [e for e in c["events"] if e["op"] == "T" and e["sent"]][-1]
        w = len(cans) % 3
        if w == 0:
            e["sent"] = e["sent"][1:]
        elif w == 1:
            e["sent"] = e["sent"] + [e["sent"][0]]
        else:
            e["sent"][0]["frame"]["data"][0] ^= 0x10
        cans.append(c)
    if traces:
        path = os.path.join(chk.workdir, "sched-traces.ndjson")
        with open(path, "w") as f:
            for t in traces + cans:
                f.write(json.dumps(t) + "\n")
        tr = tlc.run("Trace_Sched", workdir=chk.workdir, env={"TRACE_FILE": path}, timeout=3000, heap="6g")
        chk.add_tlc(tr, "Trace_Sched[%d histories]" % len(traces))
        verd = {v["id"]: v for v in tr.verdicts}
        for c in cans:
            if verd.get(c["id"], {"clause": "ok"})["clause"] == "ok":
                raise core.Machinery("canary accepted by Trace_Sched: %s" % c["id"])
        chk.notes["canaries_rejected"] = len(cans)
        for t in traces:
            if t["id"] not in verd:
                raise core.Machinery("no verdict for history %s" % t["id"])
            v = verd[t["id"]]
            sch, h = tmeta[t["id"]]
            if v["clause"] != "ok":
                chk.violation("can_c.sched:%s:%s" % (v["clause"], hist_class(sch, h[:v["at"]])),
                              {"mode": "T", "schema_text": glue.schema_text(sch), "history": hist_line(sch, h),
                               "event_index": v["at"], "specified_frames": v["expected"],
                               "observed": t["events"][v["at"] - 1] if v["at"] >= 1 else None})
        chk.sample({"random_history": hist_line(*tmeta[traces[0]["id"]])})
    chk.assumptions += ["first call: previous call timestamp and previous transmissions start at 0 (the statement's 'since time 0')",
                        "time deltas between consecutive calls are below 2^32; one fork() per history resets the function-local statics",
                        "a period is a positive integer below 2^31 or absent"]
    return chk.finish(
        "(M) MC_Sched: complete state space for a 3-bit wrapping clock, every delta, every period assignment from {none,1,2,3,7}, "
        "value changes (NeverTwiceWithinP, NoPeriodNeverSent, SameTickSilent, SentIffElapsed, FramesAreCurrent); (G) %d histories "
        "over the 32-bit clock with the delta alphabet {0,1,P-1,P,P+1,2P,2^32-k} emitted by Gen_Sched, up to %d per device run in the "
        "compiled generated C (one fork each) and compared call by call; (T) %d random devices x %d random histories (<= %d "
        "events, wrap-arounds) validated step by step by Trace_Sched; distinct = (device periods, history)"
        % (len(gen.out), limit, nd, nh, hl))
