"""Generate, compile and drive the C code produced by fcp_can_c for an abstract schema.

The driver source is generated from the abstract schema (field names and kinds only):
    E <msg> <values...>   -> "E <id> <dlc> <16 hex digits> |<decoded values of that very frame>"
    D <msg> <16 hex>      -> "D <decoded values>"
    S <dev> ...           scheduler commands (see sched_driver)
ints travel as decimal, IEEE words as x<hex>.
"""
import os
import shutil
import subprocess

from . import glue

glue.setup_repo_path()


def generate_c(fcp, outdir):
    """run the real generator, write the files; -> ("ok", [paths]) | ("raised", msg)"""
    from fcp_can_c import Generator
    try:
        files = Generator().generate(fcp, {"output": outdir})
    except Exception as e:
        return "raised", "%s: %s" % (type(e).__name__, str(e)[:300])
    for f in files:
        os.makedirs(os.path.dirname(str(f["path"])), exist_ok=True)
        with open(str(f["path"]), "w") as fh:
            fh.write(str(f["contents"]))
    return "ok", [str(f["path"]) for f in files]


def can_messages(sch):
    """[(impl, struct)] for CAN bindings"""
    return [(im, glue.find(sch["structs"], im["type"])) for im in sch["impls"] if im["protocol"] == "can"]


def device_of(im):
    for f in im["fields"]:
        if f["name"] == "device":
            return f["value"].get("s") or f["value"].get("id")
    return "global"


def _field_kind(t):
    return {"u": "u", "enum": "u", "i": "i", "f32": "f", "f64": "d"}[t["k"]]


def driver_source(sch, sched=False):
    msgs = can_messages(sch)
    devs = sorted({device_of(im) for im, _ in msgs})
    src = ["#include <stdio.h>", "#include <stdlib.h>", "#include <string.h>", "#include <stdint.h>",
           "#include <unistd.h>", "#include <sys/wait.h>"]
    for d in devs:
        src.append('#include "%s_can.h"' % d.lower())
    src.append("static unsigned long long hexv(const char *s){ return strtoull(s + 1, NULL, 16); }")
    src.append("static void pframe(const CanFrame *f){ printf(\"%u %u \", (unsigned)f->id, (unsigned)f->dlc);"
               " for (int i = 0; i < 8; i++) printf(\"%02x\", f->data[i]); }")
    src.append("static void parse_data(const char *h, CanFrame *f){ for (int i = 0; i < 8; i++){ unsigned b; sscanf(h + 2*i, \"%2x\", &b); f->data[i] = b; } }")
    for im, st in msgs:
        n = im["name"]
        ln = n.lower()
        src.append("static void set_%s(CanMsg%s *v, char **tok){ memset(v, 0, sizeof *v);" % (ln, n))
        for i, f in enumerate(st["fields"]):
            k = _field_kind(f["type"])
            if k == "u":
                src.append("  v->%s = (__typeof__(v->%s))strtoull(tok[%d], NULL, 10);" % (f["name"], f["name"], i))
            elif k == "i":
                src.append("  v->%s = (__typeof__(v->%s))strtoll(tok[%d], NULL, 10);" % (f["name"], f["name"], i))
            elif k == "f":
                src.append("  { uint32_t w = (uint32_t)hexv(tok[%d]); memcpy(&v->%s, &w, 4); }" % (i, f["name"]))
            else:
                src.append("  { uint64_t w = (uint64_t)hexv(tok[%d]); memcpy(&v->%s, &w, 8); }" % (i, f["name"]))
        src.append("}")
        src.append("static void show_%s(const CanMsg%s *d){" % (ln, n))
        for f in st["fields"]:
            k = _field_kind(f["type"])
            if k == "u":
                src.append('  printf(" %%llu", (unsigned long long)d->%s);' % f["name"])
            elif k == "i":
                src.append('  printf(" %%lld", (long long)d->%s);' % f["name"])
            elif k == "f":
                src.append('  { uint32_t w; memcpy(&w, &d->%s, 4); printf(" x%%08x", w); }' % f["name"])
            else:
                src.append('  { uint64_t w; memcpy(&w, &d->%s, 8); printf(" x%%016llx", (unsigned long long)w); }' % f["name"])
        src.append("}")
    if sched:
        src.append("static void send_cb(const CanFrame *f){ printf(\" [\"); pframe(f); printf(\"]\"); }")
    src.append("int main(void){ static char line[1 << 16]; char *tok[8192];")
    src.append("  while (fgets(line, sizeof line, stdin)) { int n = 0; for (char *p = strtok(line, \" \\n\"); p && n < 8192; p = strtok(NULL, \" \\n\")) tok[n++] = p;")
    src.append("    if (n < 2) continue;")
    for im, st in msgs:
        n = im["name"]
        ln = n.lower()
        src.append('    if (!strcmp(tok[1], "%s")) {' % n)
        src.append('      if (tok[0][0] == \'E\') { CanMsg%s v; set_%s(&v, tok + 2); CanFrame f = can_encode_msg_%s(&v);' % (n, ln, ln))
        src.append('        printf("E "); pframe(&f); printf(" |"); CanMsg%s d = can_decode_msg_%s(&f); show_%s(&d); printf("\\n"); }' % (n, ln, ln))
        src.append('      else if (tok[0][0] == \'D\') { CanFrame f; memset(&f, 0, sizeof f); parse_data(tok[2], &f); CanMsg%s d = can_decode_msg_%s(&f); printf("D"); show_%s(&d); printf("\\n"); }' % (n, ln, ln))
        src.append("      continue; }")
    if sched:
        # S <dev> <k> then k groups: <time> <nmsg> { <msg> <values...> ; }   -> one fork per history
        for d in devs:
            if d == "global":
                continue
            dl = d.lower()
            dp = "".join(x.capitalize() for x in dl.split("_"))
            src.append('    if (tok[0][0] == \'S\' && !strcmp(tok[1], "%s")) { fflush(stdout); pid_t pid = fork(); if (pid == 0) {' % d)
            src.append("        static CanDevice%s dev; memset(&dev, 0, sizeof dev); int i = 2; printf(\"S\");" % dp)
            src.append("        while (i < n) {")
            src.append("          if (!strcmp(tok[i], \"T\")) { uint32_t t = (uint32_t)strtoul(tok[i+1], NULL, 10); printf(\" T\"); can_send_%s_msgs_scheduled(&dev, t, send_cb); i += 2; continue; }" % dl)
            for im, st in msgs:
                if device_of(im) != d:
                    continue
                n_ = im["name"]
                src.append('          if (!strcmp(tok[i], "%s")) { set_%s(&dev.%s, tok + i + 1); i += 1 + %d; continue; }'
                           % (n_, n_.lower(), n_.lower(), len(st["fields"])))
            src.append("          i++; }")
            src.append('        printf("\\n"); fflush(stdout); _exit(0); } else { int stt; waitpid(pid, &stt, 0); if (!WIFEXITED(stt) || WEXITSTATUS(stt)) printf("S CRASH\\n"); } continue; }')
    if sched and len([d for d in devs if d != "global"]) >= 2:
        # X <dev> <time> <dev> <time> ... : the schedulers of SEVERAL devices called in one process, in the given order
        src.append("    if (tok[0][0] == 'X') { fflush(stdout); pid_t pid = fork(); if (pid == 0) {")
        for d in devs:
            if d == "global":
                continue
            dl = d.lower()
            dp = "".join(x.capitalize() for x in dl.split("_"))
            src.append("        static CanDevice%s xdev_%s; memset(&xdev_%s, 0, sizeof xdev_%s);" % (dp, dl, dl, dl))
        src.append('        printf("X"); for (int i = 1; i + 1 < n; i += 2) { uint32_t t = (uint32_t)strtoul(tok[i+1], NULL, 10); printf(" T");')
        for d in devs:
            if d == "global":
                continue
            dl = d.lower()
            src.append('          if (!strcmp(tok[i], "%s")) can_send_%s_msgs_scheduled(&xdev_%s, t, send_cb);' % (d, dl, dl))
        src.append('        } printf("\\n"); fflush(stdout); _exit(0); } else { int stt; waitpid(pid, &stt, 0); if (!WIFEXITED(stt) || WEXITSTATUS(stt)) printf("X CRASH\\n"); } continue; }')
    src.append('    printf("? %s\\n", tok[0]); }')
    src.append("  return 0; }")
    return "\n".join(src) + "\n"


def build(sch, outdir, sched=False, cc="gcc", extra=("-O1",)):
    """compile generated sources + driver; -> ("ok", exe) | ("compile-error", msg)"""
    devs = sorted({device_of(im) for im, _ in can_messages(sch)})
    with open(os.path.join(outdir, "driver.c"), "w") as f:
        f.write(driver_source(sch, sched))
    srcs = ["driver.c", "can_signal_parser.c"] + ["%s_can.c" % d.lower() for d in devs if os.path.exists(os.path.join(outdir, "%s_can.c" % d.lower()))]
    exe = os.path.join(outdir, "drv")
    p = subprocess.run([cc, "-w", "-std=gnu11", *extra, "-I", ".", "-o", exe] + srcs, cwd=outdir,
                       capture_output=True, text=True)
    if p.returncode != 0:
        err = [l for l in p.stderr.split("\n") if "error" in l]
        return "compile-error", (err[0] if err else p.stderr[:300])
    return "ok", exe


def run_driver(exe, lines, timeout=120):
    p = subprocess.run([exe], input="\n".join(lines) + "\n", capture_output=True, text=True, timeout=timeout)
    return p.returncode, p.stdout.split("\n")


def value_tokens(sch, st, value):
    """abstract struct value -> driver tokens in declaration order"""
    out = []
    for f in st["fields"]:
        t, v = f["type"], value[f["name"]]
        if t["k"] in ("u", "i", "enum"):
            out.append(str(glue.abs_to_int(v)))
        else:
            out.append("x%x" % glue.bits_to_int(v))
    return out


def parse_values(sch, st, toks):
    """driver tokens -> abstract struct value"""
    out = {}
    for f, tk in zip(st["fields"], toks):
        t = f["type"]
        if t["k"] in ("u", "i", "enum"):
            out[f["name"]] = glue.int_to_abs(int(tk))
        elif t["k"] == "f32":
            out[f["name"]] = glue.int_to_bits(int(tk[1:], 16), 32)
        else:
            out[f["name"]] = glue.int_to_bits(int(tk[1:], 16), 64)
    return out
