"""C++ driver for the generated service classes (<S>Proxy / <S>Broker) of one net of RpcProto.tla.

The net (services, clients, brokers, links) is compiled in; the program reads
    RESET | CALL <client> <method> <x> | CSTEP <client> | BSTEP <broker>
and answers every command with one line: the observable state as JSON
    {"inbox": {participant: [{"name","sid","mid","n"}...]}, "futs": {client: [{"st","val","n"}...]}}
(the projection `Obs` of the specification)."""
import hashlib
import json
import os
import re
import shutil
import subprocess

from . import cppdriver, glue

CACHE = os.path.join(cppdriver.CACHE, "..", "rpc")


def snake(name):
    from fcp.utils import to_snake_case
    return to_snake_case(name)


def payload_structs(net):
    names = []
    for s in net["services"]:
        for m in s["methods"]:
            for n in (m["input"], m["output"]):
                if n not in names:
                    names.append(n)
    return names


def vfield(name):
    return "v" + name.lower()


def schema_text(net):
    """every payload struct carries the abstract value in v<name>; the other field varies in width and id so that the value
    sits at different bit offsets"""
    out = ['version: "3"', ""]
    for i, n in enumerate(payload_structs(net)):
        w = [5, 12, 1, 7][i % 4]
        if i % 2 == 0:
            out.append("struct %s { %s @0: u8, zpad @1: u%d, }" % (n, vfield(n), w))
        else:
            out.append("struct %s { zpad @0: u%d, %s @1: u8, }" % (n, w, vfield(n)))
    for s in net["services"]:
        ms = ", ".join("method %s(%s) @%d returns %s" % (m["name"], m["input"], m["id"], m["output"]) for m in s["methods"])
        out.append("service %s @%d { %s, }" % (s["name"], s["id"], ms))
    out.append("device ecu { services: [%s], }" % ", ".join(s["name"] for s in net["services"]))
    return "\n".join(out) + "\n"


def driver_source(net):
    svc = {s["name"]: s for s in net["services"]}
    used = sorted({c["svc"] for c in net["clients"]} | {b["svc"] for b in net["brokers"]})
    o = []
    a = o.append
    a("#include <deque>\n#include <iostream>\n#include <sstream>\n#include <functional>\n#include <memory>\n#include <map>\n"
      "#include <unordered_map>\n#include <vector>\n#include <string>")
    a('#include "fcp.h"\n#include "rpc.h"')
    for s in used:
        a('#include "%s_client.h"\n#include "%s_server.h"' % (snake(s), snake(s)))
    a("using namespace fcp;\nusing Msg = std::pair<std::vector<std::uint8_t>, std::string>;")
    a("static std::map<std::string, std::deque<Msg>> inbox;")
    a("static std::multimap<std::string, std::string> links = {%s};"
      % ", ".join('{"%s", "%s"}' % (l[0], l[1]) for l in net["links"]))
    a("struct Port : IBusProxy { std::string me; Port(std::string m): me(m) {}\n"
      "  void Send(const std::vector<std::uint8_t>& d, std::string n) override { auto r = links.equal_range(me); "
      "for (auto it = r.first; it != r.second; ++it) inbox[it->second].push_back({d, n}); }\n"
      "  std::optional<Msg> Recv() override { auto& q = inbox[me]; if (q.empty()) return std::nullopt; auto m = q.front(); "
      "q.pop_front(); return m; } };")
    a("static int H(int mid, int x) { return (x + mid + 1) % 8; }")
    a("static const std::map<std::string, std::string> vfield = {%s};"
      % ", ".join('{"%s", "%s"}' % (n, vfield(n)) for n in payload_structs(net)))
    a("template<typename T> static T mk(const std::string& ty, int n) { json j; j[vfield.at(ty)] = n; j[\"zpad\"] = 0; return T::FromJson(j); }")
    for s in sorted({b["svc"] for b in net["brokers"]}):
        a("struct %sImplV : I%sImpl {" % (s, s))
        for m in svc[s]["methods"]:
            a('  %s %s(const %s& in) override { int x = in.DecodeJson()["%s"].get<int>(); return mk<%s>("%s", H(%d, x)); }'
              % (m["output"], m["name"], m["input"], vfield(m["input"]), m["output"], m["output"], m["id"]))
        a("};")
    a("struct Fut { std::function<std::string()> poll; std::string cached; };")
    a("struct World {\n  StaticSchema schema;")
    for c in net["clients"]:
        a("  Port port_%s{\"%s\"}; %sProxy %s{port_%s, schema}; std::vector<Fut> futs_%s;" % (c["name"], c["name"], c["svc"], c["name"], c["name"], c["name"]))
    for b in net["brokers"]:
        a("  Port port_%s{\"%s\"}; %sImplV impl_%s; %sBroker<%sImplV> %s{port_%s, schema, impl_%s, ServiceId::%s};"
          % (b["name"], b["name"], b["svc"], b["name"], b["svc"], b["svc"], b["name"], b["name"], b["name"], b["svc"]))
    a("};")
    a("template<typename T> static Fut track(MethodResponse<T>&& r, const std::string& ty) {\n"
      "  auto mr = std::make_shared<MethodResponse<T>>(std::move(r));\n"
      "  return Fut{[mr, ty]() -> std::string {\n"
      "    if (!mr->ready()) return \"w\";\n"
      "    try { auto v = mr->value(); if (!v.has_value()) return \"w\"; json j = v.value().DecodeJson(); "
      "return \"v\" + std::to_string(j[vfield.at(ty)].get<int>()); }\n"
      "    catch (const std::future_error&) { return \"b\"; }\n"
      "    catch (const std::exception&) { return \"x\"; } }, \"\"};\n}")
    a("static std::string fut_json(Fut& f) {\n  if (f.cached.empty() || f.cached == \"w\") f.cached = f.poll();\n  const std::string& s = f.cached;\n"
      "  if (s == \"w\") return \"{\\\"st\\\":\\\"waiting\\\",\\\"val\\\":\\\"-\\\",\\\"n\\\":0}\";\n"
      "  if (s == \"b\") return \"{\\\"st\\\":\\\"broken\\\",\\\"val\\\":\\\"-\\\",\\\"n\\\":0}\";\n"
      "  if (s == \"x\") return \"{\\\"st\\\":\\\"resolved\\\",\\\"val\\\":\\\"badtype\\\",\\\"n\\\":0}\";\n"
      "  return \"{\\\"st\\\":\\\"resolved\\\",\\\"val\\\":\\\"v\\\",\\\"n\\\":\" + s.substr(1) + \"}\";\n}")
    a("static std::string msg_json(const StaticSchema& sc, const Msg& m) {\n"
      "  std::ostringstream os; auto d = sc.DecodeJson(m.second, m.first);\n"
      "  if (!d.has_value()) { os << \"{\\\"name\\\":\\\"\" << m.second << \"\\\",\\\"undecodable\\\":1}\"; return os.str(); }\n"
      "  std::string ty = m.second; for (const char* suf : {\"Input\", \"Output\"}) { std::string s(suf); "
      "if (ty.size() > s.size() && ty.compare(ty.size() - s.size(), s.size(), s) == 0) { ty = ty.substr(0, ty.size() - s.size()); break; } }\n"
      "  os << \"{\\\"name\\\":\\\"\" << m.second << \"\\\",\\\"sid\\\":\" << d.value()[\"service_id\"].get<int>() << \",\\\"mid\\\":\" "
      "<< d.value()[\"method_id\"].get<int>() << \",\\\"n\\\":\" << d.value()[\"payload\"][vfield.at(ty)].get<int>() << \"}\";\n"
      "  return os.str();\n}")
    a("static void obs(World& w) {\n  std::ostringstream os; os << \"{\\\"inbox\\\":{\";")
    parts = [c["name"] for c in net["clients"]] + [b["name"] for b in net["brokers"]]
    for i, p in enumerate(parts):
        a('  os << "%s\\"%s\\":["; { bool f = true; for (auto& m : inbox["%s"]) { if (!f) os << ","; f = false; os << msg_json(w.schema, m); } } os << "]";'
          % ("," if i else "", p, p))
    a("  os << \"},\\\"futs\\\":{\";")
    for i, c in enumerate(net["clients"]):
        a('  os << "%s\\"%s\\":["; { bool f = true; for (auto& x : w.futs_%s) { if (!f) os << ","; f = false; os << fut_json(x); } } os << "]";'
          % ("," if i else "", c["name"], c["name"]))
    a("  os << \"}}\";\n  std::cout << os.str() << std::endl;\n}")
    a("int main() {\n  auto w = std::make_unique<World>();\n  std::string line;\n  while (std::getline(std::cin, line)) {\n"
      "    std::istringstream is(line); std::string cmd, who, meth; int x = 0; is >> cmd >> who >> meth >> x;\n    try {\n"
      "      if (cmd == \"RESET\") { inbox.clear(); w.reset(); w = std::make_unique<World>(); }")
    for c in net["clients"]:
        for m in svc[c["svc"]]["methods"]:
            a('      else if (cmd == "CALL" && who == "%s" && meth == "%s") w->futs_%s.push_back(track(w->%s.%s(mk<%s>("%s", x)), "%s"));'
              % (c["name"], m["name"], c["name"], c["name"], m["name"], m["input"], m["input"], m["output"]))
        a('      else if (cmd == "CSTEP" && who == "%s") w->%s.Step();' % (c["name"], c["name"]))
    for b in net["brokers"]:
        a('      else if (cmd == "BSTEP" && who == "%s") w->%s.Step();' % (b["name"], b["name"]))
    a("      else { std::cout << \"{\\\"error\\\":\\\"unknown command\\\"}\" << std::endl; continue; }\n"
      "      obs(*w);\n"
      "    } catch (const std::exception& e) { std::string s = e.what(); for (auto& ch : s) if (ch == '\"' || ch == '\\\\' || ch == '\\n') ch = ' '; "
      "std::cout << \"{\\\"exception\\\":\\\"\" << s << \"\\\"}\" << std::endl; }\n  }\n  return 0;\n}")
    return "\n".join(o) + "\n"


def build(net, outdir):
    """-> ("ok", exe, schema text) | (status, message, schema text)"""
    from fcp.parser import get_fcp_from_string
    from fcp.error import Logger
    text = schema_text(net)
    r = get_fcp_from_string(text, Logger({}))
    if r.is_err():
        return "schema-rejected", repr(r.err())[:400], text
    shutil.rmtree(outdir, ignore_errors=True)
    os.makedirs(outdir)
    st, files = cppdriver.generate_cpp(r.unwrap(), outdir)
    if st != "ok":
        return "generate-raised", files, text
    src = driver_source(net)
    h = hashlib.sha256()
    for name in sorted(files):
        h.update(name.encode())
        h.update(re.sub(r"// Generated using fcp .*", "", files[name]).encode())
    h.update(src.encode())
    h.update(" ".join(cppdriver.CXX).encode())
    cache = os.path.abspath(CACHE)
    os.makedirs(cache, exist_ok=True)
    cached = os.path.join(cache, h.hexdigest()[:32])
    exe = os.path.join(outdir, "rpcdrv")
    if cppdriver.cache_fetch(cached, exe):
        return "ok", exe, text
    with open(os.path.join(outdir, "rpc_driver.cpp"), "w") as f:
        f.write(src)
    p = subprocess.run(cppdriver.CXX + ["-pthread", "-I", ".", "-o", "rpcdrv", "rpc_driver.cpp"], cwd=outdir, capture_output=True, text=True)
    if p.returncode != 0:
        err = [l for l in p.stderr.split("\n") if "error" in l]
        return "compile-error", (err[0] if err else p.stderr[:600]), text
    cppdriver.cache_store(exe, cached, 30)
    return "ok", exe, text


def command(ev):
    if ev["a"] == "call":
        return "CALL %s %s %d" % (ev["p"], ev["m"], ev["x"])
    return "%s %s" % ("CSTEP" if ev["a"] == "cstep" else "BSTEP", ev["p"])


def parse_obs(line):
    try:
        return json.loads(line)
    except (ValueError, TypeError):
        return {"unparsable": line}
