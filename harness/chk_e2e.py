"""E2E (extension, not one of the listed properties): the whole tool chain against Fcp.tla's Pipeline.
For each scenario of Gen_Fcp (a schema in one file or split into modules, optionally with one defect or an
error injected into a module) and each generator, `fcp generate <g> main.fcp out` must do what Pipeline says:
front-end error / rejected / refused / generated; the generated DBC must be DbcOf(SchemaOf(Load(files))), a
TLC-packed frame must decode through it, and the Python codec on the loaded tree must give Wire.Canon."""
import json
import os
import random
import shutil

from . import core, tlc, glue, dbcread, pycodec
from .chk_gate import run_call, prepare_dir
from .chk_modules import write_tree
from .chk_dbc import compare_files, check_frames
from .chk_layout import abs_for_text


def classify(obs):
    ops = [e["op"] for e in obs["events"]]
    ver = [e for e in obs["events"] if e["op"] == "verify"]
    if not ver:
        return "front-end-error" if obs["ret"] != "Ok" else "generated"
    if ver[0]["ok"] == 0:
        return "rejected"
    if ver[0]["ok"] == 2:
        return "exception-in-verify"
    if obs["ret"] == "Ok":
        return "generated"
    return "refused"


def run_e2e(tier, seed):
    chk = core.Check("E2E", tier, seed, "model_checking", ext=True)
    res = tlc.run("Gen_Fcp", workdir=chk.workdir, env={"MOD_WHICH": "x", "MOD_SCOPE": tier}, timeout=1800, heap="4g")
    chk.add_tlc(res, "Gen_Fcp")
    root = os.path.join(chk.workdir, "tree")
    out = os.path.join(chk.workdir, "out")
    for c in sorted(res.out, key=lambda o: json.dumps(o, sort_keys=True)):
        main = write_tree(root, c["files"])
        ctx = {"files": {"/".join(f["path"]) + ".fcp": f["text"] for f in c["files"]}, "defect": c["defect"], "inject": c["inject"]}
        chk.distinct(json.dumps(c["files"], sort_keys=True))
        for g in ("dbc", "can_c", "cpp", "nop"):
            prepare_dir(out, "unrelated", g)
            obs = run_call(g, main, out, "cli")
            got = classify(obs)
            chk.count(1, traces=1)
            exp = c["outcomes"][g]
            if got != exp:
                chk.violation("e2e[%s]:%s-instead-of-%s:%s/%s" % (g, got, exp, c["defect"], c["inject"]),
                              dict(ctx, generator=g, specified=exp, observed=got, message=obs["msg"], events=obs["events"]))
                continue
            if exp != "generated" and obs["fs0"] != {k: v for k, v in obs["fs1"].items()}:
                chk.violation("e2e[%s]:directory-changed-although-%s" % (g, exp), dict(ctx, before=obs["fs0"], after=obs["fs1"]))
            if g == "dbc" and exp == "generated":
                files = []
                for f in sorted(os.listdir(out)):
                    if f == "notes.txt":
                        continue
                    files.append({"bus": os.path.splitext(f)[0], "contents": open(os.path.join(out, f)).read()})
                read = [{"bus": f["bus"], "messages": dbcread.read(f["contents"])} for f in files]
                cl, detail = compare_files(c["dbc"], read)
                if cl != "ok":
                    chk.violation("e2e[dbc]:description:%s" % cl, dict(ctx, detail=detail, expected=c["dbc"], read_back=read))
                check_frames(chk, json.dumps(ctx["files"])[:2000], {f["bus"]: f["contents"] for f in files}, c["frame"], "E2E", "e2e")
        if c["wire"]:
            from fcp.parser import get_fcp
            r = get_fcp(main)
            if r.is_ok():
                w = c["wire"][0]
                sch = abs_for_text(glue.strip_gen(c["schema"][0]))
                st, enc = pycodec.encode(r.unwrap(), sch, w["root"], w["value"])
                chk.count(1, traces=1)
                if st != "ok" or enc != w["bytes"]:
                    chk.violation("e2e[python]:bytes-differ", dict(ctx, canonical=w["bytes"], observed=enc))
        chk.sample(dict(ctx, outcomes=c["outcomes"]), cap=2)
    shutil.rmtree(root, ignore_errors=True)
    shutil.rmtree(out, ignore_errors=True)
    chk.assumptions += ["extension check: ties Modules, Syntax, Verifier, GateRules, Dbc, Frame and Wire together through Fcp.tla; "
                        "not one of the listed properties"]
    return chk.finish("every scenario of Gen_Fcp (5 defects x 7 file layouts, 3 injected module errors) x 4 generators through the "
                      "click command; SplitTransparent / InjectedIsFrontEndError / DefectFree are TLC invariants; distinct = file tree")
