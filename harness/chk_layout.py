"""C04: the packed CAN layout (fcp.encoding.PackedEncoder) against Layout/LayoutM."""
import json
import os
import random

from . import core, tlc, glue, randgen, pycodec
from .chk_wire import SchemaCache


def norm_lit(v):
    if "id" in v:
        return {"s": v["id"]}
    if "f" in v:
        return {"f": repr(float(v["f"]))}
    if "a" in v:
        return {"a": [norm_lit(x) for x in v["a"]]}
    return v


def py_lit(x):
    if isinstance(x, bool):
        return {"s": str(x)}
    if isinstance(x, int):
        return {"i": x}
    if isinstance(x, float):
        return {"f": repr(x)}
    if isinstance(x, str):
        return {"s": x}
    if isinstance(x, list):
        return {"a": [py_lit(y) for y in x]}
    return {"s": repr(x)}


def norm_ext(ext):
    return sorted(({"name": f["name"], "value": norm_lit(f["value"])} for f in ext), key=lambda f: f["name"])


def obs_leaf(v):
    ext = v.extended_data if isinstance(v.extended_data, dict) else {}
    return {"name": v.name, "start": v.bitstart, "len": v.bitlength, "endian": v.endianess,
            "ext": sorted(({"name": k, "value": py_lit(x)} for k, x in ext.items()), key=lambda f: f["name"]),
            "unit": [] if v.unit is None else [v.unit]}


def exp_leaf(l):
    return {"name": l["name"], "start": l["start"], "len": l["len"], "endian": l["endian"],
            "ext": norm_ext(l["ext"]), "unit": l["unit"]}


def find_impl(fcp, name, protocol="can"):
    if "@" in name:                      # "Name@protocol": a binding of another protocol that shares the name
        name, protocol = name.split("@", 1)
    for i in fcp.impls:
        if i.name == name and i.protocol == protocol:
            return i
    raise KeyError(name)


def run_history(fcp, unroll, calls):
    """one encoder object, the given sequence of generate() calls -> list of observations"""
    from fcp.encoding import make_encoder, PackedEncoderContext
    enc = make_encoder("packed", fcp, PackedEncoderContext().with_unroll_arrays(bool(unroll)))
    out = []
    for name in calls:
        try:
            r = enc.generate(find_impl(fcp, name))
            out.append({"raised": 0, "ret": [obs_leaf(v) for v in r]})
        except Exception as e:
            out.append({"raised": 1, "ret": [], "error": "%s: %s" % (type(e).__name__, str(e)[:200])})
    return out


def first_diff(exp, obs):
    if len(exp) != len(obs):
        return "leaf-count", None
    for i, (e, o) in enumerate(zip(exp, obs)):
        if e != o:
            for k in ("name", "start", "len", "endian", "ext", "unit"):
                if e[k] != o[k]:
                    return k, i
    return "ok", None


def leaf_kind(sch, impl_type, exp, idx):
    """type kind of the leaf where the layout first differs (for the signature)"""
    if idx is None:
        return "-"
    return exp[idx]["type"]["k"] if "type" in exp[idx] else "-"


def has_struct_array(sch, t, in_arr=False):
    k = t["k"]
    if k == "struct":
        if in_arr:
            return True
        return any(has_struct_array(sch, f["type"]) for f in glue.find(sch["structs"], t["name"])["fields"])
    if k == "arr":
        return has_struct_array(sch, t["t"], True)
    return False


def rand_layout_schema(rng):
    sch = randgen.rand_schema(rng, depth=3, fixed=True, maxfields=5)
    own = set()
    for st in sch["structs"]:
        for f in st["fields"]:
            own.add(f["name"])
            if f["type"]["k"] == "arr":
                own.add(f["name"] + "_0")
                own.add(f["name"] + "_1")
    own = sorted(own)
    impls = []
    for i, st in enumerate(sch["structs"]):
        for j in range(rng.randint(1, 2)):
            sigs = []
            for n in rng.sample(own, min(len(own), rng.randint(0, 3))):
                fl = []
                if rng.random() < 0.5:
                    fl.append({"name": "endianess", "value": {"s": rng.choice(["big", "little"])}})
                if rng.random() < 0.5:
                    fl.append({"name": "mux_count", "value": {"i": rng.randint(1, 16)}})
                    fl.append({"name": "mux_signal", "value": {"s": rng.choice(own)}})
                if not fl:
                    fl.append({"name": "scale", "value": {"f": repr(rng.choice([0.5, 2.0, 0.125]))}})
                sigs.append({"name": n, "fields": fl})
            impls.append({"name": "M%d%s" % (i, "ab"[j]), "protocol": "can", "type": st["name"],
                          "fields": [{"name": "id", "value": {"i": 10 * i + j}}], "signals": sigs})
    sch["impls"] = impls
    for st in sch["structs"]:
        for f in st["fields"]:
            if rng.random() < 0.3:
                f["unit"] = rng.choice(["V", "m/s", "rpm"])
    if rng.random() < 0.3:
        # one struct gets a field without static length at a random position: its bindings (and those of structs embedding it)
        # are refused, possibly after some leaves have been laid out
        st = rng.choice(sch["structs"])
        t = rng.choice([{"k": "str"}, {"k": "dyn", "t": {"k": "u", "w": 8}}, {"k": "opt", "t": {"k": "u", "w": 3}}])
        st["fields"].insert(rng.randint(0, len(st["fields"])),
                            {"name": "vz", "id": max(f["id"] for f in st["fields"]) + rng.choice([1, 5]), "type": t})
        if rng.random() < 0.5:
            st["fields"][-1]["id"], st["fields"][0]["id"] = st["fields"][0]["id"], st["fields"][-1]["id"]
    return sch


def abs_for_tlc(sch):
    """units as <<>> / <<u>> for the specification"""
    s = json.loads(json.dumps(sch))
    for st in s["structs"]:
        for f in st["fields"]:
            if "unit" in f:
                f["unit"] = [f["unit"]] if not isinstance(f["unit"], list) else f["unit"]
    return s


def abs_for_text(sch):
    s = json.loads(json.dumps(sch))
    for st in s["structs"]:
        for f in st["fields"]:
            u = f.get("unit")
            if isinstance(u, list):
                if u:
                    f["unit"] = u[0]
                else:
                    del f["unit"]
    return s


def run_c04(tier, seed):
    chk = core.Check("C04", tier, seed, "model_checking")
    rng = random.Random(seed)
    cache = SchemaCache()
    ncalls = "3" if tier == "quick" else "4"
    res = tlc.run("MC_Layout", workdir=chk.workdir, env={"LAYOUT_CALLS": ncalls, "LAYOUT_EMIT": "1"},
                  timeout=2400, heap="6g")
    chk.add_tlc(res, "MC_Layout[calls<=%s]" % ncalls)
    hist = sorted(res.out, key=lambda h: json.dumps(h, sort_keys=True))
    chk.notes["histories_emitted"] = len(hist)
    limit = 6000 if tier == "quick" else 60000
    if len(hist) > limit:
        rng.shuffle(hist)
        hist = hist[:limit]
    for h in hist:
        sch = abs_for_text(glue.strip_gen(h["schema"]))
        fcp = cache.get(sch)
        obs = run_history(fcp, h["unroll"], h["calls"])
        chk.count(len(h["calls"]), traces=1)
        for ci, (name, exp, o) in enumerate(zip(h["calls"], h["rets"], obs)):
            e = [exp_leaf(l) for l in exp]
            chk.distinct(json.dumps([sch["structs"], h["unroll"], name], sort_keys=True))
            if not exp:
                # the specification refuses this binding (a struct below an array that is not unrolled): the call must raise
                if not o["raised"]:
                    chk.violation("encoding.generate:laid-out-a-binding-that-must-be-refused",
                                  {"mode": "G", "schema_text": glue.schema_text(sch), "unroll": h["unroll"], "calls": h["calls"],
                                   "call": ci, "observed": o["ret"]})
                continue
            if o["raised"]:
                chk.violation("encoding.generate:raised%s" % ("" if ci == 0 else ":after-earlier-calls"), {"mode": "G", "schema_text": glue.schema_text(sch),
                              "unroll": h["unroll"], "calls": h["calls"], "call": ci, "error": o["error"]})
                continue
            what, idx = first_diff(e, o["ret"])
            if what != "ok":
                chk.violation("encoding.generate:%s:%s%s" % (what, leaf_kind(sch, None, exp, idx),
                                                           "" if ci == 0 else ":after-earlier-calls"),
                              {"mode": "G", "schema_text": glue.schema_text(sch), "unroll": h["unroll"],
                               "calls": h["calls"], "call_index": ci, "expected": e, "observed": o["ret"]})
        chk.sample({"schema": glue.schema_text(sch), "unroll": h["unroll"], "calls": h["calls"],
                    "expected_first": [exp_leaf(l) for l in h["rets"][0]] or "refused"}, cap=2)
    # (T) random shapes, long histories on one encoder object, judged by Trace_Layout
    n = 120 if tier == "quick" else 3000
    traces, meta = [], {}
    for i in range(n):
        sch = rand_layout_schema(rng)
        fcp = cache.get(sch)
        for unroll in (0, 1):
            # every binding, also those generate() refuses (struct arrays without unrolling, variable-size fields): a refused
            # call must not disturb the calls that follow on the same object
            names = [im["name"] for im in sch["impls"]]
            calls = [rng.choice(names) for _ in range(rng.randint(1, 12))]
            obs = run_history(fcp, unroll, calls)
            tid = "h%d-%d" % (i, unroll)
            traces.append({"id": tid, "schema": abs_for_tlc(sch), "unroll": unroll,
                           "calls": [{"impl": c, "raised": o["raised"], "ret": o["ret"]} for c, o in zip(calls, obs)]})
            meta[tid] = (sch, unroll, calls, obs)
    # canaries: a shifted bitstart, a swapped name, a dropped option must be rejected
    cans = []
    good = [t for t in traces if all(c["raised"] == 0 and c["ret"] for c in t["calls"])]
    for t in good[:6]:
        c = json.loads(json.dumps(t))
        c["id"] = "canary-" + t["id"]
        leaf = c["calls"][-1]["ret"][-1]
        which = len(cans) % 3
        if which == 0:
            leaf["start"] += 1
        elif which == 1:
            leaf["len"] += 1
        else:
            leaf["name"] += "x"
        cans.append(c)
    path = os.path.join(chk.workdir, "layout-traces.ndjson")
    with open(path, "w") as f:
        for t in traces + cans:
            f.write(json.dumps(t) + "\n")
    res = tlc.run("Trace_Layout", workdir=chk.workdir, env={"TRACE_FILE": path}, timeout=1800, heap="4g")
    chk.add_tlc(res, "Trace_Layout[%d histories]" % len(traces))
    verd = {v["id"]: v for v in res.verdicts}
    for c in cans:
        if c["id"] not in verd or all(x == "ok" for x in verd[c["id"]]["clauses"]):
            raise core.Machinery("canary accepted by Trace_Layout: %s" % c["id"])
    chk.notes["canaries_rejected"] = len(cans)
    for t in traces:
        if t["id"] not in verd:
            raise core.Machinery("no verdict for history %s" % t["id"])
        sch, unroll, calls, obs = meta[t["id"]]
        chk.count(len(calls), traces=1)
        for ci, cl in enumerate(verd[t["id"]]["clauses"]):
            chk.distinct(json.dumps([sch["structs"], unroll, calls[ci]], sort_keys=True))
            if cl != "ok":
                chk.violation("encoding.generate:%s%s" % (cl, "" if ci == 0 else ":after-earlier-calls"),
                              {"mode": "T", "schema_text": glue.schema_text(sch), "unroll": unroll, "calls": calls,
                               "call_index": ci, "clause": cl, "observed": obs[ci]})
    chk.sample({"random_history": {"schema": glue.schema_text(traces[0]["schema"] and meta[traces[0]["id"]][0]),
                                   "unroll": traces[0]["unroll"], "calls": meta[traces[0]["id"]][2]}})
    chk.assumptions += ["non-unrolled arrays whose elements are structs are outside the domain (the statement speaks of scalar leaves)",
                        "a leaf carries the options of the signal block named like its own last name segment (DESIGN.md, interpretation decisions)"]
    return chk.finish(
        "histories = sequences of generate() calls on one encoder object; (G) all histories of maximal length %s over 4 bindings (two of them share a name under different protocols) "
        "emitted by MC_Layout (sampled to %d) replayed and compared leaf by leaf; (T) %d random fixed-size schemas x both unroll "
        "settings x random histories of 1..12 calls validated by Trace_Layout; distinct = (struct shapes, unroll, binding)"
        % (ncalls, limit, n))
