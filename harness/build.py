"""abstract schema tree -> FcpV2 objects, built directly (no parser): needed for trees the
grammar cannot express (struct without fields) and to be fast."""
from . import glue

glue.setup_repo_path()


def mk_type(t):
    from fcp.specs import type as T
    k = t["k"]
    if k == "u":
        return T.UnsignedType("u%d" % t["w"])
    if k == "i":
        return T.SignedType("i%d" % t["w"])
    if k == "f32":
        return T.FloatType()
    if k == "f64":
        return T.DoubleType()
    if k == "str":
        return T.StringType()
    if k == "arr":
        return T.ArrayType(mk_type(t["t"]), t["n"])
    if k == "dyn":
        return T.DynamicArrayType(mk_type(t["t"]))
    if k == "opt":
        return T.OptionalType(mk_type(t["t"]))
    if k == "struct":
        return T.StructType(t["name"])
    if k == "enum":
        return T.EnumType(t["name"])
    raise ValueError(t)


def meta(line=1):
    from fcp.specs.metadata import MetaData
    return MetaData(line=line, end_line=line, column=1, end_column=1, start_pos=0, end_pos=0, filename="main.fcp")


def mk_fcp(tree, default_impls=True, order=None):
    """order: optional dict kind -> permutation (list of indices) applied to that list"""
    from fcp.specs.v2 import FcpV2
    from fcp.specs.struct import Struct
    from fcp.specs.struct_field import StructField
    from fcp.specs.enum import Enum, Enumeration
    from fcp.specs.impl import Impl
    from fcp.specs.signal_block import SignalBlock
    from fcp.specs.service import Service
    from fcp.specs.method import Method
    from fcp.specs.device import Device
    structs = [Struct(name=s["name"],
                      fields=[StructField(name=f["name"], field_id=f["id"], type=mk_type(f["type"]),
                                          unit=(f["unit"][0] if isinstance(f.get("unit"), list) and f["unit"] else
                                                f.get("unit") if isinstance(f.get("unit"), str) else None),
                                          meta=meta()) for f in s["fields"]],
                      meta=meta()) for s in tree["structs"]]
    enums = [Enum(name=e["name"], enumeration=[Enumeration(name=i["name"], value=glue.abs_to_int(i["value"]), meta=meta())
                                               for i in e["items"]], meta=meta()) for e in tree.get("enums", [])]
    impls = []
    if default_impls:
        for s in tree["structs"]:
            impls.append(Impl(name=s["name"], protocol="default", type=s["name"], fields={}, signals=[], meta=meta()))
    for im in tree.get("impls", []):
        impls.append(Impl(name=im["name"], protocol=im["protocol"], type=im["type"],
                          fields={f["name"]: glue.lit_py(f["value"]) for f in im.get("fields", [])},
                          signals=[SignalBlock(name=sg["name"], fields={f["name"]: glue.lit_py(f["value"]) for f in sg["fields"]},
                                               meta=meta()) for sg in im.get("signals", [])], meta=meta()))
    services = [Service(s["name"], s["id"], [Method(m["name"], m["id"], m["input"], m["output"], meta()) for m in s["methods"]],
                        meta=meta()) for s in tree.get("services", [])]
    devices = [Device(d["name"], {f["name"]: glue.lit_py(f["value"]) for f in d["fields"]}, meta()) for d in tree.get("devices", [])]
    if order:
        def perm(lst, key):
            p = order.get(key)
            return [lst[i] for i in p] if p and len(p) == len(lst) else lst
        structs, enums, impls = perm(structs, "structs"), perm(enums, "enums"), perm(impls, "impls")
        services, devices = perm(services, "services"), perm(devices, "devices")
    return FcpV2(structs=structs, enums=enums, impls=impls, services=services, devices=devices)


def verifier_for(cset):
    from fcp.verifier import make_general_verifier
    v = make_general_verifier()
    if cset == "dbc":
        from fcp_dbc import Generator
        Generator().register_checks(v)
    elif cset == "can_c":
        from fcp_can_c import Generator
        Generator().register_checks(v)
    return v


def verdict(fcp, cset, verifier=None):
    """-> "Ok" | "Err" | "exception: ..." | "neither: ..."   (verifier: ask this long-lived object instead of a fresh one)"""
    try:
        r = (verifier if verifier is not None else verifier_for(cset)).verify(fcp)
    except Exception as e:
        return "exception: %s: %s" % (type(e).__name__, str(e)[:150])
    try:
        if r.is_ok():
            return "Ok"
        if r.is_err():
            return "Err"
    except Exception as e:
        return "neither: %r" % (r,)
    return "neither: %r" % (r,)
