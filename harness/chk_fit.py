"""C14: CAN messages that do not fit a frame are rejected, never truncated."""
import json
import os
import random
import re
import shutil

from . import core, tlc, glue, randgen, dbcread, cdriver, pycodec
from .chk_dbc import generate_dbc, rand_can_schema
from .chk_gate import run_call, prepare_dir, fs_json
from .chk_layout import abs_for_text, abs_for_tlc

_MACRO = re.compile(r"#define can_decode_signal_(\w+?)\(msg\)\s*\\\s*\n\s*can_decode_signal_as_\w+\(\(msg\),\s*(\d+),\s*(\d+),[^,]*,[^,]*,\s*(true|false)\)")
_DLC = re.compile(r"CanFrame can_encode_msg_(\w+)\([^)]*\)\s*\{\s*CanFrame message = \{\.id = (\d+), \.dlc = (\d+)\}")


def scan_c_sources(outdir):
    """every message found in the generated <dev>_can.c files: name, dlc, signals(start, len)"""
    msgs = {}
    for f in sorted(os.listdir(outdir)):
        if not f.endswith("_can.c"):
            continue
        src = open(os.path.join(outdir, f)).read()
        dlcs = {m.group(1): int(m.group(3)) for m in _DLC.finditer(src)}
        for m in _MACRO.finditer(src):
            full = m.group(1)
            owner = max((n for n in dlcs if full.startswith(n + "_")), key=len, default=None)
            if owner is None:
                continue
            msgs.setdefault(owner, {"name": owner, "len": dlcs[owner], "signals": []})["signals"].append(
                {"name": full[len(owner) + 1:], "start": int(m.group(2)), "len": int(m.group(3)),
                 "order": "little_endian", "mux_ids": []})
    return list(msgs.values())


def dbc_msgs(files):
    out = []
    for f in files:
        for m in dbcread.read(f["contents"]):
            out.append({"name": m["name"], "len": m["len"],
                        "signals": [{"name": s["name"], "start": s["start"], "len": s["len"], "order": s["order"],
                                     "mux_ids": s["mux_ids"]} for s in m["signals"]]})
    return out


def break_schema(rng, sch):
    """turn a fitting random CAN schema into one with a binding that does not fit"""
    s = json.loads(json.dumps(sch))
    can = [im for im in s["impls"] if im["protocol"] == "can"]
    im = rng.choice(can)
    st = glue.find(s["structs"], im["type"])
    how = rng.choice(["widen", "append", "str", "dyn", "opt"])
    ids = [f["id"] for f in st["fields"]]
    nid = max(ids) + 1
    name = [n for n in randgen.NAMES_F if n not in [f["name"] for f in st["fields"]]][0]
    if how == "widen":
        st["fields"].append({"name": name, "id": nid, "type": {"k": "u", "w": 64}})
    elif how == "append":
        st["fields"].insert(0, {"name": name, "id": nid, "type": {"k": "arr", "t": {"k": "u", "w": 13}, "n": 5}})
    elif how == "str":
        st["fields"].insert(rng.randint(0, len(st["fields"])), {"name": name, "id": nid, "type": {"k": "str"}})
    elif how == "dyn":
        st["fields"].append({"name": name, "id": nid, "type": {"k": "dyn", "t": {"k": "u", "w": 8}}})
    else:
        st["fields"].insert(0, {"name": name, "id": nid, "type": {"k": "opt", "t": {"k": "u", "w": 1}}})
    return s, how


def run_c14(tier, seed):
    chk = core.Check("C14", tier, seed, "fault_enumeration")
    rng = random.Random(seed)
    res = tlc.run("FitGen", workdir=chk.workdir, env={}, timeout=900, heap="2g")
    chk.add_tlc(res, "FitGen")
    cases = []
    for o in sorted(res.out, key=lambda o: json.dumps(o, sort_keys=True)):
        cases.append((abs_for_text(glue.strip_gen(o["schema"])), "catalogue:%s bits" % o["bits"] if o["bits"] else "catalogue:variable-size"))
    nrand = 40 if tier == "quick" else 800
    for _ in range(nrand):
        sch = rand_can_schema(rng)
        sch.setdefault("services", [])
        sch.setdefault("devices", [])
        # the C generator needs plain identifiers for devices
        cases.append((sch, "random:fits"))
        b, how = break_schema(rng, sch)
        cases.append((b, "random:broken-" + how))
    out = os.path.join(chk.workdir, "out")
    events, gate_traces, meta = [], [], {}
    for i, (sch, label) in enumerate(cases):
        text = glue.schema_text(sch)
        try:
            fcp, _ = pycodec.parse_schema(sch)
        except RuntimeError as e:
            raise core.Machinery("front end rejected a C14 scenario: %s" % e)
        shutil.rmtree(out, ignore_errors=True)
        st, files = generate_dbc(fcp, out)
        dmsgs = dbc_msgs(files) if st == "ok" else []
        # the C generation command, full path through GeneratorManager
        for ds in (("unrelated", "clash") if tier != "quick" else (rng.choice(["unrelated", "clash", "absent"]),)):
            for gen in ("dbc", "can_c"):
                prepare_dir(out, ds, gen)
                fcp2, _ = pycodec.parse_schema(sch)
                obs = run_call(gen, fcp2, out, "api")
                tid = "f%d-%s-%s" % (i, gen, ds)
                tree = abs_for_tlc(sch)
                tree.setdefault("services", [])
                tree.setdefault("devices", [])
                gate_traces.append({"id": tid, "gen": gen, "registered": [gen], "tree": tree, "fs0": fs_json(obs["fs0"]), "fs1": fs_json(obs["fs1"]),
                                    "events": obs["events"], "ret": obs["ret"], "files": obs["files"]})
                meta[tid] = (sch, label, gen, ds, obs)
                if gen == "can_c":
                    c_ok = 1 if obs["ret"] == "Ok" else 0
                    cmsgs = scan_c_sources(out) if c_ok else []
        if i % 4 == 0:
            # one manager and ONE parsed schema object used for several generators in a row (nop or dbc before can_c):
            # the verifier accumulates the plug-ins' checks and must run them again for every call
            from fcp.codegen import GeneratorManager
            from fcp.verifier import make_general_verifier
            mgr = GeneratorManager(make_general_verifier())
            fcp3, _ = pycodec.parse_schema(sch)
            reg = []
            for g in (("nop", "can_c", "dbc") if i % 8 == 0 else ("dbc", "can_c")):
                prepare_dir(out, "unrelated", g)
                obs = run_call(g, fcp3, out, "api", manager=mgr)
                reg = reg + [g]
                tid = "f%d-seq-%s" % (i, "-".join(reg))
                tree = abs_for_tlc(sch)
                tree.setdefault("services", [])
                tree.setdefault("devices", [])
                gate_traces.append({"id": tid, "gen": g, "registered": list(reg), "tree": tree, "fs0": fs_json(obs["fs0"]),
                                    "fs1": fs_json(obs["fs1"]), "events": obs["events"], "ret": obs["ret"], "files": obs["files"]})
                meta[tid] = (sch, label + ":same-object-after-" + "-".join(reg[:-1]), g, "unrelated", obs)
        tree = abs_for_tlc(sch)
        tree.setdefault("services", [])
        tree.setdefault("devices", [])
        eid = "e%d" % i
        events.append({"id": eid, "schema": tree, "dbc_ok": 1 if st == "ok" else 0, "dbc_msgs": dmsgs, "c_ok": c_ok, "c_msgs": cmsgs})
        meta[eid] = (sch, label, st, files if st != "ok" else None)
        chk.sample({"schema": text, "class": label, "dbc": st, "c_command": "Ok" if c_ok else "Err/raised"}, cap=3)
    shutil.rmtree(out, ignore_errors=True)
    # canaries for Trace_Fit: a described oversize message / a signal past the end
    cans = []
    for e in events:
        if len(cans) >= 4:
            break
        if e["dbc_ok"] == 1 and e["dbc_msgs"] and e["dbc_msgs"][0]["signals"]:
            c = json.loads(json.dumps(e))
            c["id"] = "canary-" + e["id"]
            c["dbc_msgs"][0]["signals"][0]["start"] = 8 * c["dbc_msgs"][0]["len"] - 1
            c["dbc_msgs"][0]["signals"][0]["len"] = 2
            c["dbc_msgs"][0]["signals"][0]["order"] = "little_endian"
            cans.append(c)
    path = os.path.join(chk.workdir, "fit-events.ndjson")
    with open(path, "w") as f:
        for e in events + cans:
            f.write(json.dumps(e) + "\n")
    tr = tlc.run("Trace_Fit", workdir=chk.workdir, env={"TRACE_FILE": path}, timeout=1800, heap="4g")
    chk.add_tlc(tr, "Trace_Fit[%d schemas]" % len(events))
    verd = {v["id"]: v for v in tr.verdicts}
    for c in cans:
        if verd.get(c["id"], {"clause": "ok"})["clause"] == "ok":
            raise core.Machinery("canary accepted by Trace_Fit")
    nfit = 0
    for e in events:
        if e["id"] not in verd:
            raise core.Machinery("no verdict for %s" % e["id"])
        sch, label, st, info = meta[e["id"]]
        v = verd[e["id"]]
        nfit += v["fits"]
        chk.count(1, traces=1)
        chk.distinct(json.dumps(sch, sort_keys=True))
        if v["clause"] != "ok":
            chk.violation("fit:%s:%s" % (v["clause"], label.split(":")[1] if ":" in label else label),
                          {"schema_text": glue.schema_text(sch), "class": label, "clause": v["clause"], "dbc_status": st,
                           "dbc_info": info, "dbc_messages": e["dbc_msgs"], "c_messages": e["c_msgs"]})
    chk.notes["schemas_that_fit"] = nfit
    chk.notes["schemas_that_do_not_fit"] = len(events) - nfit
    path = os.path.join(chk.workdir, "fit-gate.ndjson")
    with open(path, "w") as f:
        for t in gate_traces:
            f.write(json.dumps(t) + "\n")
    tg = tlc.run("Trace_Gate", workdir=chk.workdir, env={"TRACE_FILE": path}, timeout=1800, heap="4g")
    chk.add_tlc(tg, "Trace_Gate[%d generate commands]" % len(gate_traces))
    gverd = {v["id"]: v for v in tg.verdicts}
    for t in gate_traces:
        if t["id"] not in gverd:
            raise core.Machinery("no verdict for %s" % t["id"])
        sch, label, gen, ds, obs = meta[t["id"]]
        v = gverd[t["id"]]
        chk.count(1, traces=1)
        if v["clause"] != "ok":
            chk.violation("generate[%s]:%s:%s" % (gen, v["clause"], label.split(":")[1] if ":" in label else label),
                          {"schema_text": glue.schema_text(sch), "class": label, "generator": gen, "dir_state": ds,
                           "clause": v["clause"], "returned": obs["ret"], "message": obs["msg"],
                           "fs_before": obs["fs0"], "fs_after": obs["fs1"]})
    chk.assumptions += ["'fail with an error' = Err or a raised exception; 'emit no description' = output directory unchanged and "
                        "nothing returned", "C sources are scanned through the generated can_decode_signal_* macros and the .dlc initialisers"]
    return chk.finish(
        "fault catalogue from FitGen: %d CAN bindings with totals 56..200 bits (excess in last/first field, nested struct, array, enum) "
        "and a variable-size field at every position; plus %d random fitting CAN schemas and a broken twin of each (widened / extra "
        "array / str / dyn / opt); each through fcp_dbc.generate, GeneratorManager('dbc') and ('can_c') with pre-existing directory "
        "contents; outputs of fitting schemas scanned and WellPlaced evaluated by TLC; distinct = distinct schema"
        % (len(res.out), nrand))
