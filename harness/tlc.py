"""Run TLC on a module of /verif/spec and collect what it printed.

TLC is always started directly (java ... tlc2.TLC) with G1 and a fixed heap: the
stock `tlc` wrapper is 5-7x slower in this VM (see DESIGN.md 2.3).
"""
import json
import os
import re
import shutil
import subprocess
import time

VERIF = os.path.dirname(os.path.dirname(os.path.abspath(__file__)))
SPEC = os.path.join(VERIF, "spec")
JAR = "/opt/veriftools/tla/tla2tools.jar"
DEPS = "/opt/veriftools/tla/CommunityModules-deps.jar"


class TlcError(Exception):
    """TLC itself failed (parse error, evaluation error, timeout): machinery failure."""


class TlcResult:
    def __init__(self):
        self.out = []          # decoded JSON payloads of "OUT ..." lines
        self.verdicts = []     # decoded JSON payloads of "VERDICT ..." lines
        self.states = 0        # distinct states
        self.generated = 0     # states generated (transitions)
        self.depth = 0
        self.invariant_violated = None
        self.coverage = {}     # action name -> (distinct, total)
        self.raw_tail = ""
        self.wall = 0.0
        self.trace_text = ""


_PRINT_RE = re.compile(r'^"((?:OUT|VERDICT) .*)"$')


def _decode_print(line):
    m = _PRINT_RE.match(line)
    if not m:
        return None
    # the line is a TLA+ string literal: undo its escaping (same as JSON's)
    s = json.loads('"' + m.group(1) + '"')
    tag, payload = s.split(" ", 1)
    return tag, json.loads(payload)


def run(module, cfg=None, **kw):
    """run TLC; an internal TLC failure that is not a property violation ("TLC threw an unexpected exception", seen once in a
    fresh sandbox on a run that had finished its search) is retried with fewer workers before it counts as a machinery failure"""
    try:
        return _run(module, cfg, **kw)
    except TlcError as e:
        if "unexpected exception" not in str(e) and "rc=255" not in str(e):
            raise
        first = str(e)
    for w in (4, 1):
        try:
            return _run(module, cfg, **dict(kw, workers=w))
        except TlcError as e:
            last = str(e)
    raise TlcError("TLC failed three times (16, 4 and 1 workers) on %s\n--- first failure\n%s\n--- last failure\n%s" % (module, first[:3000], last[:3000]))


def _run(module, cfg=None, *, workdir, env=None, workers=16, heap="2g", timeout=900,
         simulate=None, depth=None, seed=None, coverage=False, deadlock=False,
         extra=(), on_line=None, allow_violation=False, dfid=None):
    """Run TLC on spec/<module>.tla with spec/<cfg>; returns a TlcResult.

    workdir: scratch directory (metadir and states live there; caller removes it).
    env: extra environment (read inside the spec through IOEnv).
    """
    os.makedirs(workdir, exist_ok=True)
    meta = os.path.join(workdir, "meta_" + module)
    shutil.rmtree(meta, ignore_errors=True)
    cfg = cfg or (module + ".cfg")
    cmd = ["java", "-XX:+UseG1GC", "-Xms" + heap, "-Xmx" + heap, "-Xss16m",
           "-cp", JAR + ":" + DEPS, "tlc2.TLC",
           "-workers", str(workers), "-metadir", meta, "-noGenerateSpecTE",
           "-config", cfg]
    if not deadlock:
        cmd.append("-deadlock")          # "-deadlock" = do NOT check for deadlock
    if coverage:
        cmd += ["-coverage", "1"]
    if simulate is not None:
        cmd += ["-simulate", simulate]
    if depth is not None:
        cmd += ["-depth", str(depth)]
    if seed is not None:
        cmd += ["-seed", str(seed)]
    if dfid is not None:
        cmd += ["-dfid", str(dfid)]
    cmd += list(extra)
    cmd.append(module + ".tla")
    e = dict(os.environ)
    e.pop("JAVA_TOOL_OPTIONS", None)
    if env:
        e.update({k: str(v) for k, v in env.items()})
    res = TlcResult()
    t0 = time.time()
    p = subprocess.Popen(cmd, cwd=SPEC, env=e, stdout=subprocess.PIPE,
                         stderr=subprocess.STDOUT, text=True, errors="replace")
    tail = []
    errors = []
    grab = 0
    in_trace = False
    trace_lines = []
    try:
        deadline = t0 + timeout
        for line in p.stdout:
            line = line.rstrip("\n")
            if time.time() > deadline:
                p.kill()
                raise TlcError("TLC timeout after %ds on %s" % (timeout, module))
            d = None
            if line.startswith('"OUT ') or line.startswith('"VERDICT '):
                try:
                    d = _decode_print(line)
                except Exception as ex:  # malformed print = machinery failure
                    errors.append("undecodable print line: %r (%s)" % (line[:200], ex))
            if d is not None:
                (res.out if d[0] == "OUT" else res.verdicts).append(d[1])
                if on_line:
                    on_line(d[0], d[1])
                continue
            tail.append(line)
            if len(tail) > 400:
                del tail[:200]
            m = re.match(r"^(\d+) states generated, (\d+) distinct states found", line)
            if m:
                res.generated = int(m.group(1))
                res.states = int(m.group(2))
            m = re.match(r"^The depth of the complete state graph search is (\d+)", line)
            if m:
                res.depth = int(m.group(1))
            m = re.match(r"^Error: Invariant (\S+) is violated", line)
            if m:
                res.invariant_violated = m.group(1)
                in_trace = True
            m = re.match(r"^Error: Action property (\S+) is violated", line)
            if m:
                res.invariant_violated = m.group(1)
                in_trace = True
            if in_trace:
                trace_lines.append(line)
            elif line.startswith("Error:") or "Exception" in line and "at tlc2" not in line:
                errors.append(line)
                grab = 3
            elif errors and grab > 0:
                errors.append("    " + line[:400])      # the lines after an error line carry its message
                grab -= 1
            m = re.match(r"^<(\w+) line \d+, col \d+ to line \d+, col \d+ of module (\w+)>: (\d+):(\d+)", line)
            if m:
                res.coverage[m.group(1)] = (int(m.group(3)), int(m.group(4)))
        p.wait()
    finally:
        if p.poll() is None:
            p.kill()
        shutil.rmtree(meta, ignore_errors=True)
    res.wall = time.time() - t0
    res.raw_tail = "\n".join(tail[-120:])
    res.trace_text = "\n".join(trace_lines[:400])
    if res.invariant_violated and not allow_violation:
        raise TlcError("TLC: invariant %s violated in %s\n%s"
                       % (res.invariant_violated, module, res.trace_text[:4000]))
    if (p.returncode != 0 and not res.invariant_violated) or errors:
        raise TlcError("TLC failed on %s (rc=%s)\n%s\n%s"
                       % (module, p.returncode, "\n".join(errors[:20]), res.raw_tail[-3000:]))
    return res


def sany(module):
    """Parse a module with SANY; raises TlcError on failure."""
    p = subprocess.run(["java", "-cp", JAR + ":" + DEPS, "tla2sany.SANY", module + ".tla"],
                       cwd=SPEC, capture_output=True, text=True)
    ok = p.returncode == 0 and "Semantic errors" not in p.stdout and "*** Errors" not in p.stdout \
        and "Parse Error" not in p.stdout and "Fatal" not in p.stdout
    if not ok:
        raise TlcError("SANY failed on %s:\n%s" % (module, p.stdout[-3000:]))
    return True
