"""Driver for the Python codec (fcp.serde) and front end, run in-process against
/repo's working tree."""
import signal
from . import glue

glue.setup_repo_path()


class CallTimeout(Exception):
    pass


def _alarm(signum, frame):
    raise CallTimeout()


def with_timeout(seconds, fn, *a):
    old = signal.signal(signal.SIGALRM, _alarm)
    signal.setitimer(signal.ITIMER_REAL, seconds)
    try:
        return fn(*a)
    finally:
        signal.setitimer(signal.ITIMER_REAL, 0)
        signal.signal(signal.SIGALRM, old)


def parse_schema(sch):
    """abstract schema -> (FcpV2, text); raises RuntimeError when the front end rejects it"""
    from fcp.parser import get_fcp_from_string
    from fcp.error import Logger
    text = glue.schema_text(sch)
    r = get_fcp_from_string(text, Logger({}))
    if r.is_err():
        raise RuntimeError("front end rejected generated schema: %r\n%s" % (r.err(), text))
    return r.unwrap(), text


def exercise(fcp):
    """what other read-only consumers of a parsed schema do with the object before the codec is used on it: the packed layout
    encoder with and without array unrolling over every binding, reflection, to_dict, describe.  None of it may leave a mark."""
    from fcp.encoding import make_encoder, PackedEncoderContext
    for unroll in (True, False):
        try:
            enc = make_encoder("packed", fcp, PackedEncoderContext().with_unroll_arrays(unroll))
        except Exception:
            continue
        for impl in list(fcp.impls):
            try:
                enc.generate(impl)
            except Exception:
                pass          # bindings without static size are refused
    for f in (lambda: fcp.reflection(), lambda: fcp.to_dict()):
        try:
            f()
        except Exception:
            pass
    try:
        from fcp.describe import DescribeVisitor
        from fcp.specs.type import StructType
        for st in fcp.structs:
            DescribeVisitor(fcp).visit(StructType(st.name))
    except Exception:
        pass
    return fcp


def parse_schema_split(sch, workdir, variant):
    """the same abstract schema written as SEVERAL files and loaded with get_fcp -> (FcpV2, {path: text}).
    variant 0: main holds the types and imports `bindings` (impls, services, devices) at its end;
    variant 1: main imports `lib.types` (enums, structs) first and holds the rest;
    variant 2: types in `lib/types`, bindings split over `net/a` and `net/b` (alternating), main only imports.
    Raises RuntimeError when the front end rejects it."""
    import os
    import shutil
    from fcp.parser import get_fcp
    from fcp.error import Logger
    types = {"enums": sch.get("enums", []), "structs": sch.get("structs", [])}
    rest = {k: sch.get(k, []) for k in ("impls", "services", "devices")}
    files = {}
    if variant == 0:
        files["main.fcp"] = glue.schema_text(types) + "\nmod bindings;\n"
        files["bindings.fcp"] = glue.schema_text(rest)
    elif variant == 1:
        body = glue.schema_text(rest).split("\n")
        files["main.fcp"] = "\n".join(body[:1] + ["", "mod lib.types;"] + body[1:])
        files["lib/types.fcp"] = glue.schema_text(types)
    else:
        a = dict(rest, impls=rest["impls"][0::2], services=[], devices=[])
        b = dict(rest, impls=rest["impls"][1::2])
        files["main.fcp"] = 'version: "3"\n\nmod lib.types;\nmod net.a;\nmod net.b;\n'
        files["lib/types.fcp"] = glue.schema_text(types)
        files["net/a.fcp"] = glue.schema_text(a)
        files["net/b.fcp"] = glue.schema_text(b)
    root = os.path.join(workdir, "split")
    shutil.rmtree(root, ignore_errors=True)
    for rel, text in files.items():
        p = os.path.join(root, rel)
        os.makedirs(os.path.dirname(p), exist_ok=True)
        with open(p, "w") as f:
            f.write(text)
    r = get_fcp(os.path.join(root, "main.fcp"), Logger({}))
    if r.is_err():
        raise RuntimeError("front end rejected the split form of a generated schema: %r\n%s" % (r.err(), files))
    return r.unwrap(), files


def encode(fcp, sch, root, value):
    """-> ("ok", [bytes]) | ("raised", "Type: msg")"""
    from fcp import serde
    try:
        pv = glue.to_py(sch, {"k": "struct", "name": root}, value)
        b = with_timeout(10, serde.encode, fcp, root, pv)
        return "ok", list(b)
    except CallTimeout:
        return "timeout", "encode did not return within 10 s"
    except Exception as e:  # any exception is an observation, not a harness failure
        return "raised", "%s: %s" % (type(e).__name__, str(e)[:200])


def decode(fcp, sch, root, data, limit=10):
    """-> ("ok", abstract value) | ("raised", msg) | ("badvalue", msg) | ("timeout", msg)"""
    from fcp import serde
    try:
        pv = with_timeout(limit, serde.decode, fcp, root, bytearray(data))
    except CallTimeout:
        return "timeout", "decode did not return within %s s" % limit
    except MemoryError as e:
        return "memory", "MemoryError"
    except RecursionError as e:
        return "recursion", "RecursionError"
    except Exception as e:
        return "raised", "%s: %s" % (type(e).__name__, str(e)[:200])
    try:
        return "ok", glue.from_py(sch, {"k": "struct", "name": root}, pv)
    except glue.BadValue as e:
        return "badvalue", str(e)[:200]
