"""Driver for the Python codec (fcp.serde) and front end, run in-process against
/repo's working tree."""
import signal
from . import glue

glue.setup_repo_path()


class CallTimeout(Exception):
    pass


def _alarm(signum, frame):
    raise CallTimeout()


def with_timeout(seconds, fn, *a):
    old = signal.signal(signal.SIGALRM, _alarm)
    signal.setitimer(signal.ITIMER_REAL, seconds)
    try:
        return fn(*a)
    finally:
        signal.setitimer(signal.ITIMER_REAL, 0)
        signal.signal(signal.SIGALRM, old)


def parse_schema(sch):
    """abstract schema -> (FcpV2, text); raises RuntimeError when the front end rejects it"""
    from fcp.parser import get_fcp_from_string
    from fcp.error import Logger
    text = glue.schema_text(sch)
    r = get_fcp_from_string(text, Logger({}))
    if r.is_err():
        raise RuntimeError("front end rejected generated schema: %r\n%s" % (r.err(), text))
    return r.unwrap(), text


def encode(fcp, sch, root, value):
    """-> ("ok", [bytes]) | ("raised", "Type: msg")"""
    from fcp import serde
    try:
        pv = glue.to_py(sch, {"k": "struct", "name": root}, value)
        b = with_timeout(10, serde.encode, fcp, root, pv)
        return "ok", list(b)
    except CallTimeout:
        return "timeout", "encode did not return within 10 s"
    except Exception as e:  # any exception is an observation, not a harness failure
        return "raised", "%s: %s" % (type(e).__name__, str(e)[:200])


def decode(fcp, sch, root, data, limit=10):
    """-> ("ok", abstract value) | ("raised", msg) | ("badvalue", msg) | ("timeout", msg)"""
    from fcp import serde
    try:
        pv = with_timeout(limit, serde.decode, fcp, root, bytearray(data))
    except CallTimeout:
        return "timeout", "decode did not return within %s s" % limit
    except MemoryError as e:
        return "memory", "MemoryError"
    except RecursionError as e:
        return "recursion", "RecursionError"
    except Exception as e:
        return "raised", "%s: %s" % (type(e).__name__, str(e)[:200])
    try:
        return "ok", glue.from_py(sch, {"k": "struct", "name": root}, pv)
    except glue.BadValue as e:
        return "badvalue", str(e)[:200]
