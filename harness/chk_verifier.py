"""C09: verifier verdict == well-formedness (Verifier.tla / VerifierM.tla), both ways."""
import itertools
import json
import time
import os
import random

from . import core, tlc, glue, build, pycodec

CSETS = ("general", "dbc", "can_c")


def grammar_can_express(tree):
    return all(len(s["fields"]) > 0 for s in tree["structs"])


def perms(n, rng, k):
    allp = list(itertools.permutations(range(n)))
    if len(allp) <= k:
        return allp
    return [allp[0], allp[-1]] + rng.sample(allp[1:-1], k - 2)


def rand_tree(rng):
    ns = rng.randint(1, 3)
    names = rng.sample(["A", "B", "C", "D"], ns)
    if rng.random() < 0.15 and ns > 1:
        names[1] = names[0]
    structs = []
    for n in names:
        nf = rng.choice([0, 1, 1, 2, 3, 3])
        fn = [rng.choice(["x", "y", "z", "w"]) for _ in range(nf)]
        if rng.random() < 0.8:
            fn = rng.sample(["x", "y", "z", "w"], nf)
        def ftype():
            r = rng.random()
            cands = [x["name"] for x in structs if x["name"] != n and x["fields"]]
            if r < 0.6 or not cands:
                return {"k": "u", "w": rng.choice([1, 8, 16, 24, 32, 40, 64])}
            prev = rng.choice(cands)
            if r < 0.75:
                return {"k": "struct", "name": prev}
            if r < 0.9:
                return {"k": "arr", "t": {"k": "struct", "name": prev}, "n": rng.randint(1, 3)}
            return {"k": "arr", "t": {"k": "u", "w": rng.choice([3, 8, 16])}, "n": rng.randint(1, 5)}
        structs.append({"name": n, "fields": [{"name": f, "id": i, "type": ftype()} for i, f in enumerate(fn)]})
    enums = []
    for en in rng.sample(["E", "F", "A"], rng.randint(0, 2)):
        k = rng.randint(1, 3)
        inames = [rng.choice(["X", "Y", "Z"]) for _ in range(k)] if rng.random() < 0.3 else rng.sample(["X", "Y", "Z"], k)
        ivals = [rng.randint(0, 2) for _ in range(k)] if rng.random() < 0.3 else rng.sample(range(5), k)
        enums.append({"name": en, "items": [{"name": a, "value": glue.int_to_abs(b)} for a, b in zip(inames, ivals)]})
    impls = []
    for _ in range(rng.randint(0, 3)):
        tgt = rng.choice(names + ["Missing"] + ([enums[0]["name"]] if enums else []))
        fl = []
        if rng.random() < 0.7:
            fl.append({"name": "id", "value": {"i": rng.randint(1, 3)}})
        if rng.random() < 0.3:
            fl.append({"name": "bus", "value": {"s": "b1"}})
        impls.append({"name": rng.choice([tgt, tgt, "N1", "N2"]), "protocol": rng.choice(["can", "can", "uart", "default"]),
                      "type": tgt, "fields": fl, "signals": []})
    services = [{"name": s, "id": i, "methods": [{"name": "m", "id": 0, "input": names[0], "output": names[0]}]}
                for i, s in enumerate(rng.sample(["S", "T", "U"], rng.randint(0, 2)))]
    devices = []
    for d in range(rng.randint(0, 2)):
        if rng.random() < 0.7:
            sv = rng.sample(["S", "T", "U"], rng.randint(0, 2))
            devices.append({"name": "dev%d" % d, "fields": [{"name": "services", "value": {"a": [{"id": x} for x in sv]}}]})
        else:
            devices.append({"name": "dev%d" % d, "fields": [{"name": "kind", "value": {"s": "k"}}]})
    return {"structs": structs, "enums": enums, "impls": impls, "services": services, "devices": devices}


def run_c09(tier, seed):
    chk = core.Check("C09", tier, seed, "model_checking")
    rng = random.Random(seed)
    res = tlc.run("MC_Verifier", workdir=chk.workdir, env={"VER_EMIT": "1", "VER_SCOPE": tier}, timeout=3000, heap="8g")
    chk.add_tlc(res, "MC_Verifier[%s]" % tier)
    trees = sorted(res.out, key=lambda o: json.dumps(o["tree"], sort_keys=True))
    chk.notes["trees_emitted"] = len(trees)
    nparse = 0
    parse_budget = 2500 if tier == "quick" else 20000
    parse_pick = set(rng.sample(range(len(trees)), min(parse_budget, len(trees))))
    prev_obj = None
    shared = {}
    t_start = time.time()
    for ti, o in enumerate(trees):
        if len(chk.violations) > 2000 and (time.time() - t_start) > 600:
            # thousands of wrong verdicts already and the run is crawling (a verifier that gets slower with every call):
            # what has been seen decides the property; stop here
            chk.notes["stopped_early_after_trees"] = ti
            break
        tree = o["tree"]
        variants = [("objects", build.mk_fcp(tree))]
        # all permutations of the struct and impl lists (explicit and default impls together)
        nst, nim = len(tree["structs"]), len(tree["structs"]) + len(tree["impls"])
        for ps in (perms(nst, rng, 2)[-1:] if (tier != "quick" or ti % 3 == 0) else []):
            for pi in perms(nim, rng, 3 if tier != "quick" else 2)[1:]:
                if ps == tuple(range(nst)) and pi == tuple(range(nim)):
                    continue
                variants.append(("objects-permuted", build.mk_fcp(tree, order={"structs": list(ps), "impls": list(pi)})))
        if ti in parse_pick and grammar_can_express(tree) and not any(len(e["items"]) == 0 for e in tree["enums"]):
            try:
                fcp, _ = pycodec.parse_schema(tree)
                variants.append(("parsed", fcp))
                nparse += 1
            except RuntimeError:
                pass        # the front end's own rejections (unknown type names) are C08's business
        if prev_obj is not None and ti % 5 == 0:
            # an object that has already been verified (the previous tree) EDITED IN PLACE into this tree, and a deep copy of it
            # edited the same way: the verdict is a function of the tree at the time of the call
            import copy
            fresh = build.mk_fcp(tree)
            for how, obj in (("objects-edited-in-place", prev_obj), ("copy-edited", copy.deepcopy(prev_obj))):
                for attr in ("structs", "enums", "impls", "services", "devices"):
                    getattr(obj, attr)[:] = getattr(fresh, attr)
                variants.append((how, obj))
        prev_obj = variants[0][1]
        if ti % 3 == 0:
            # ONE long-lived verifier object per check set asked about tree after tree (renewed every 150 trees so that it starts
            # from different ones): the verdict is a function of the tree, not of what the verifier has seen before
            if ti % 450 == 0:
                shared.clear()
            variants.append(("objects/verifier-reused", build.mk_fcp(tree)))
        for cs in CSETS:
            exp = "Ok" if o[cs] == 1 else "Err"
            for how, fcp in variants:
                if how == "objects/verifier-reused":
                    if cs not in shared:
                        shared[cs] = build.verifier_for(cs)
                    got = build.verdict(fcp, cs, verifier=shared[cs])
                else:
                    got = build.verdict(fcp, cs)
                chk.count(1, traces=1)
                if got != exp:
                    dev = ("accepted-ill-formed" if got == "Ok" else "rejected-well-formed" if got == "Err" else "neither-ok-nor-err")
                    chk.violation("verifier[%s]:%s:%s%s" % (cs, dev, "+".join(o["fails"][cs]) or "none",
                                                           ":permuted" if how == "objects-permuted" and
                                                           build.verdict(variants[0][1], cs) == exp else ""),
                                  {"mode": "G", "built": how, "tree": tree, "check_set": cs, "specified": exp, "observed": got,
                                   "failing_rules": o["fails"][cs],
                                   "schema_text": glue.schema_text(tree) if grammar_can_express(tree) else None})
        chk.distinct(json.dumps(tree, sort_keys=True))
        if ti % 5000 == 0:
            chk.sample({"tree": tree, "specified": {cs: o[cs] for cs in CSETS}, "failing_rules": o["fails"]}, cap=3)
    chk.notes["trees_also_parsed_from_text"] = nparse
    # (T) random larger trees, recorded verify() calls judged by TLC
    n = 1500 if tier == "quick" else 30000
    if "stopped_early_after_trees" in chk.notes:
        n = 50
    events, meta = [], {}
    for i in range(n):
        tree = rand_tree(rng)
        order = None
        if rng.random() < 0.5:
            nim = len(tree["structs"]) + len(tree["impls"])
            order = {"structs": rng.sample(range(len(tree["structs"])), len(tree["structs"])), "impls": rng.sample(range(nim), nim)}
        fcp = build.mk_fcp(tree, order=order)
        for cs in CSETS:
            got = build.verdict(fcp, cs)
            eid = "v%d-%s" % (i, cs)
            events.append({"id": eid, "tree": tree, "cset": cs, "verdict": got if got in ("Ok", "Err") else "other"})
            meta[eid] = (tree, cs, got, order)
    cans = []
    for e in events[:6]:
        if e["verdict"] in ("Ok", "Err"):
            c = dict(e)
            c["id"] = "canary-" + e["id"]
            c["verdict"] = "Ok" if e["verdict"] == "Err" else "Err"
            cans.append(c)
    verd = {}
    allev = events + cans
    BATCH = 12000          # TLC holds the whole event file in memory: keep the files moderate
    for b in range(0, len(allev), BATCH):
        path = os.path.join(chk.workdir, "verify-events-%d.ndjson" % b)
        with open(path, "w") as f:
            for e in allev[b:b + BATCH]:
                f.write(json.dumps(e) + "\n")
        tr = tlc.run("Trace_Verifier", workdir=chk.workdir, env={"TRACE_FILE": path}, timeout=3000, heap="4g")
        chk.add_tlc(tr, "Trace_Verifier[%d verify() calls]" % len(allev[b:b + BATCH]))
        verd.update({v["id"]: v for v in tr.verdicts})
        os.remove(path)
    # a canary flips a verdict: it must be rejected unless the original was itself a violation
    for c in cans:
        orig = verd[c["id"][7:]]["clause"]
        if orig == "ok" and verd[c["id"]]["clause"] == "ok":
            raise core.Machinery("canary accepted by Trace_Verifier: %s" % c["id"])
    chk.notes["canaries_rejected"] = len(cans)
    for e in events:
        if e["id"] not in verd:
            raise core.Machinery("no verdict for %s" % e["id"])
        tree, cs, got, order = meta[e["id"]]
        v = verd[e["id"]]
        chk.count(1, traces=1)
        chk.distinct(json.dumps(tree, sort_keys=True))
        if v["clause"] != "ok":
            chk.violation("verifier[%s]:%s:%s" % (cs, v["clause"], "+".join(v["fails"]) or "none"),
                          {"mode": "T", "tree": tree, "order": order, "check_set": cs, "observed": got,
                           "specified_well_formed": v["wf"], "failing_rules": v["fails"]})
    chk.assumptions += ["'two CAN bindings with the same frame id' = protocol can and an id field present; 'message wider than 64 bits' = "
                        "a can binding whose (existing) struct packs to more than 64 bits; an exception escaping verify is neither verdict",
                        "fields are fixed-size integers (variable-size CAN messages belong to C14)"]
    return chk.finish(
        "(M) MC_Verifier: VerdictIsWF (operational category/check/node machine == declarative WellFormed) and OrderIndependent over all "
        "%d trees of the scope x 3 check sets; (G) every tree built as FcpV2 objects (and %d also parsed from printed text), plus "
        "permutations of its struct and binding lists, verified with the general / +dbc / +can_c check sets and compared with TLC's "
        "verdict; (T) %d random larger trees x 3 check sets judged by Trace_Verifier; distinct = distinct tree"
        % (len(trees), nparse, n))
