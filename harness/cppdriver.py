"""Generate, compile (cached by content) and drive the C++ code produced by fcp_cpp."""
import hashlib
import os
import shutil
import subprocess

from . import glue, core

glue.setup_repo_path()
DRIVER = os.path.join(core.VERIF, "drivers", "cpp_driver.cpp")
CACHE = os.path.join(core.VERIF, ".cache", "cpp")
CXX = ["g++", "--std=c++17", "-O0", "-w", "-I/root/miniconda/include"]


def generate_cpp(fcp, outdir):
    """run the real generator and write the files -> ("ok", {name: contents}) | ("raised", msg)"""
    from fcp_cpp import Generator
    try:
        files = Generator().generate(fcp, {"output": outdir})
    except Exception as e:
        return "raised", "%s: %s" % (type(e).__name__, str(e)[:300])
    out = {}
    os.makedirs(outdir, exist_ok=True)
    for f in files:
        p = str(f["path"])
        with open(p, "w") as fh:
            fh.write(str(f["contents"]))
        out[os.path.basename(p)] = str(f["contents"])
    return "ok", out


def reflection_binary(fcp):
    """the binary reflection the Python tool produces for this schema (what `fcp encode` writes)"""
    from fcp.reflection import get_reflection_schema
    from fcp import serde
    rs = get_reflection_schema().unwrap()
    return bytes(serde.encode(rs, "Fcp", fcp.reflection()))


SANITIZE = ["-O1", "-g0", "-fsanitize=address,undefined", "-fno-sanitize-recover=all", "-fno-omit-frame-pointer"]


def build(fcp, outdir, sanitize=False):
    """-> ("ok", exe) | ("generate-raised" | "compile-error" | "reflection-raised", msg)
    sanitize: compile the driver with ASan + UBSan (a memory error then ends the process: the command is answered "crashed")"""
    cxx = CXX + (SANITIZE if sanitize else [])
    shutil.rmtree(outdir, ignore_errors=True)
    os.makedirs(outdir)
    st, files = generate_cpp(fcp, outdir)
    if st != "ok":
        return "generate-raised", files
    try:
        binary = reflection_binary(fcp)
    except Exception as e:
        return "reflection-raised", "%s: %s" % (type(e).__name__, str(e)[:300])
    with open(os.path.join(outdir, "schema.bin"), "wb") as f:
        f.write(binary)
    h = hashlib.sha256()
    import re
    for name in sorted(files):
        h.update(name.encode())
        h.update(re.sub(r"// Generated using fcp .*", "", files[name]).encode())
    h.update(open(DRIVER, "rb").read())
    h.update(" ".join(cxx).encode())
    key = h.hexdigest()[:32]
    os.makedirs(CACHE, exist_ok=True)
    cached = os.path.join(CACHE, key)
    exe = os.path.join(outdir, "drv")
    if cache_fetch(cached, exe):
        return "ok", exe
    shutil.copy(DRIVER, os.path.join(outdir, "cpp_driver.cpp"))
    p = subprocess.run(cxx + ["-I", ".", "-o", "drv", "cpp_driver.cpp"], cwd=outdir, capture_output=True, text=True)
    if p.returncode != 0:
        err = [l for l in p.stderr.split("\n") if "error" in l]
        return "compile-error", (err[0] if err else p.stderr[:400])
    # every generated header must compile (fcp.h first: the other headers rely on its includes)
    first = ["fcp.h", "dynamic.h", "can_static_schema.h", "can_dynamic_schema.h"]
    with open(os.path.join(outdir, "all_headers.cpp"), "w") as f:
        for h in first + sorted(n for n in files if n.endswith(".h") and n not in first):
            f.write('#include "%s"\n' % h)
    p = subprocess.run(CXX + ["-fsyntax-only", "-I", ".", "all_headers.cpp"], cwd=outdir, capture_output=True, text=True)
    if p.returncode != 0:
        err = [l for l in p.stderr.split("\n") if "error" in l]
        return "compile-error", "generated header does not compile: " + (err[0] if err else p.stderr[:400])
    # the per-protocol headers are meant to be included on their own
    for h in sorted(n for n in files if n.startswith("fcp_") and n.endswith(".h")):
        with open(os.path.join(outdir, "one_header.cpp"), "w") as f:
            f.write('#include "%s"\n' % h)
        p = subprocess.run(CXX + ["-fsyntax-only", "-I", ".", "one_header.cpp"], cwd=outdir, capture_output=True, text=True)
        if p.returncode != 0:
            err = [l for l in p.stderr.split("\n") if "error" in l]
            return "compile-error", "%s does not compile on its own: %s" % (h, err[0] if err else p.stderr[:400])
    cache_store(exe, cached, 60)
    return "ok", exe


def cache_fetch(cached, exe):
    """copy a cached executable; several check processes share the cache (another one may evict the entry at any time)"""
    try:
        shutil.copy(cached, exe)
        return True
    except FileNotFoundError:
        return False


def cache_store(exe, cached, bound):
    """bound the cache, then publish the new entry atomically (a reader never sees half a file)"""
    d = os.path.dirname(cached)
    ents = []
    for e in os.listdir(d):
        if e.startswith(".tmp"):
            continue
        try:
            ents.append((os.path.getmtime(os.path.join(d, e)), e))
        except FileNotFoundError:
            pass
    ents.sort()
    while len(ents) > bound:
        try:
            os.remove(os.path.join(d, ents.pop(0)[1]))
        except FileNotFoundError:
            pass
    tmp = os.path.join(d, ".tmp-%d-%s" % (os.getpid(), os.path.basename(cached)))
    shutil.copy(exe, tmp)
    os.replace(tmp, cached)


def run(exe, lines, timeout=300, per_line=15):
    """run the commands; a crash or a hang loses the command that caused it ("crashed" / "timeout"), the rest are
    re-run in a new process.  -> list of answers (str), one per command"""
    import queue
    import threading
    answers = []
    todo = list(lines)
    cwd = os.path.dirname(exe)
    while todo:
        p = subprocess.Popen([exe], stdin=subprocess.PIPE, stdout=subprocess.PIPE, stderr=subprocess.DEVNULL, text=True,
                             cwd=cwd, errors="replace")
        q = queue.Queue()

        def reader(proc=p, qq=q):
            for line in proc.stdout:
                qq.put(line.rstrip("\n"))
            qq.put(None)

        def writer(proc=p, data="\n".join(todo) + "\n"):
            try:
                proc.stdin.write(data)
                proc.stdin.close()
            except (BrokenPipeError, OSError):
                pass
        threading.Thread(target=reader, daemon=True).start()
        threading.Thread(target=writer, daemon=True).start()
        got = 0
        status = "done"
        while got < len(todo):
            try:
                line = q.get(timeout=per_line)
            except queue.Empty:
                status = "timeout"
                break
            if line is None:
                status = "crashed"
                break
            answers.append(line)
            got += 1
        p.kill()
        p.wait()
        if got >= len(todo):
            break
        answers.append(status)
        todo = todo[got + 1:]
    return answers


# ------------------------------------------------------------------ value syntax
def val_tokens(sch, t, v, enum_names=False):
    """abstract value -> driver tokens.  enum_names: enumerators by name (dynamic codec) instead of number"""
    k = t["k"]
    if k == "u":
        return ["u%d" % glue.abs_to_int(v)]
    if k == "i":
        return ["i%d" % glue.abs_to_int(v)]
    if k == "enum":
        if enum_names:
            e = glue.find(sch["enums"], t["name"])
            name = [it["name"] for it in e["items"] if it["value"] == v][0]
            return ["s" + name.encode().hex()]
        return ["u%d" % glue.abs_to_int(v)]
    if k == "f32":
        return ["f%08x" % glue.bits_to_int(v)]
    if k == "f64":
        return ["d%016x" % glue.bits_to_int(v)]
    if k == "str":
        return ["s" + (bytes(v).hex() or "-")]
    if k in ("arr", "dyn"):
        out = ["["]
        for x in v:
            out += val_tokens(sch, t["t"], x, enum_names)
        return out + ["]"]
    if k == "opt":
        return ["n"] if not v else val_tokens(sch, t["t"], v[0], enum_names)
    if k == "struct":
        st = glue.find(sch["structs"], t["name"])
        out = ["{"]
        for f in st["fields"]:
            out += [f["name"]] + val_tokens(sch, f["type"], v[f["name"]], enum_names)
        return out + ["}"]
    raise ValueError(t)


class BadShape(Exception):
    pass


def parse_tokens(sch, t, toks, p, enum_names=False):
    """driver tokens -> (abstract value, next position); raises BadShape when the JSON does not have the type's shape"""
    k = t["k"]
    if p >= len(toks):
        raise BadShape("truncated output")
    tk = toks[p]
    if k in ("u", "i") or (k == "enum" and not enum_names):
        if tk[0] not in "iu":
            raise BadShape("expected integer, got %s" % tk)
        return glue.int_to_abs(int(tk[1:])), p + 1
    if k == "enum":
        if tk[0] != "s":
            raise BadShape("expected enumerator name, got %s" % tk)
        name = bytes.fromhex(tk[1:] if tk[1:] != "-" else "").decode("latin1")
        e = glue.find(sch["enums"], t["name"])
        m = [it["value"] for it in e["items"] if it["name"] == name]
        if not m:
            raise BadShape("unknown enumerator %r" % name)
        return m[0], p + 1
    if k in ("f32", "f64"):
        if tk[0] != "d":
            raise BadShape("expected float, got %s" % tk)
        import struct
        d = struct.unpack("<d", struct.pack("<Q", int(tk[1:], 16)))[0]
        try:
            return (glue.f32_to_bits(d) if k == "f32" else glue.f64_to_bits(d)), p + 1
        except (OverflowError, struct.error):
            raise BadShape("value %r does not fit the field's float type" % d)
    if k == "str":
        if tk[0] != "s":
            raise BadShape("expected string, got %s" % tk)
        return list(bytes.fromhex(tk[1:] if tk[1:] != "-" else "")), p + 1
    if k in ("arr", "dyn"):
        if tk == "n":             # nlohmann: an empty `json j{}` that never got an element is null
            return [], p + 1
        if tk != "[":
            raise BadShape("expected array, got %s" % tk)
        p += 1
        out = []
        while p < len(toks) and toks[p] != "]":
            x, p = parse_tokens(sch, t["t"], toks, p, enum_names)
            out.append(x)
        return out, p + 1
    if k == "opt":
        if tk == "n":
            return [], p + 1
        x, p = parse_tokens(sch, t["t"], toks, p, enum_names)
        return [x], p
    if k == "struct":
        if tk != "{":
            raise BadShape("expected object, got %s" % tk)
        st = glue.find(sch["structs"], t["name"])
        ft = {f["name"]: f["type"] for f in st["fields"]}
        p += 1
        out = {}
        while p < len(toks) and toks[p] != "}":
            key = toks[p]
            if key == "__is_method_input":      # marker the rpc input wrappers add to their JSON
                p += 2
                continue
            if key not in ft:
                raise BadShape("unexpected key %s" % key)
            x, p = parse_tokens(sch, ft[key], toks, p + 1, enum_names)
            out[key] = x
        if set(out) != set(ft):
            raise BadShape("keys %s" % sorted(out))
        return out, p + 1
    raise ValueError(t)
