"""A small independent reader of the DBC text: BO_, SG_, SIG_VALTYPE_, SG_MUL_VAL_.
Returns the description in the vocabulary of spec/Dbc.tla (representation only)."""
import re

_BO = re.compile(r'^BO_ (\d+) (\w+) *: *(\d+) (\S+)')
_SG = re.compile(r'^\s*SG_ (\w+)\s*(M|m\d+M?)?\s*:\s*(\d+)\|(\d+)@([01])([+-])\s*\(([^,]+),([^)]+)\)\s*\[([^|]*)\|([^\]]*)\]\s*"([^"]*)"')
_VT = re.compile(r'^SIG_VALTYPE_ (\d+) (\w+) *: *(\d+) *;')
_MV = re.compile(r'^SG_MUL_VAL_ (\d+) (\w+) (\w+) ([^;]*);')


def read(text):
    msgs = []
    cur = None
    valtype = {}
    mulval = {}
    for raw in text.replace("\r\n", "\n").split("\n"):
        m = _BO.match(raw)
        if m:
            cur = {"id": int(m.group(1)) & 0x1FFFFFFF, "name": m.group(2), "len": int(m.group(3)), "signals": [],
                   "_mux": {}}
            msgs.append(cur)
            continue
        m = _SG.match(raw)
        if m and cur is not None:
            name, mux = m.group(1), m.group(2)
            sg = {"name": name, "start": int(m.group(3)), "len": int(m.group(4)),
                  "order": "little_endian" if m.group(5) == "1" else "big_endian",
                  "signed": 1 if m.group(6) == "-" else 0, "float": 0, "unit": m.group(11),
                  "is_mux": 0, "mux_ids": [], "mux_signal": "", "_scale": m.group(7).strip(), "_offset": m.group(8).strip()}
            if mux:
                if mux.endswith("M"):
                    sg["is_mux"] = 1
                if mux.startswith("m"):
                    sg["mux_ids"] = [int(mux[1:].rstrip("M"))]
                    sg["_muxed"] = True
            cur["signals"].append(sg)
            continue
        m = _VT.match(raw)
        if m:
            valtype[(int(m.group(1)) & 0x1FFFFFFF, m.group(2))] = int(m.group(3))
            continue
        m = _MV.match(raw)
        if m:
            ids = []
            for rng in m.group(4).split(","):
                rng = rng.strip()
                if not rng:
                    continue
                a, b = rng.split("-")
                ids += list(range(int(a), int(b) + 1))
            mulval[(int(m.group(1)) & 0x1FFFFFFF, m.group(2))] = (m.group(3), ids)
    for msg in msgs:
        mux_name = [s["name"] for s in msg["signals"] if s["is_mux"]]
        for s in msg["signals"]:
            if valtype.get((msg["id"], s["name"]), 0) in (1, 2):
                s["float"] = 1
            if (msg["id"], s["name"]) in mulval:
                sel, ids = mulval[(msg["id"], s["name"])]
                s["mux_signal"], s["mux_ids"] = sel, ids
            elif s.pop("_muxed", False):
                s["mux_signal"] = mux_name[0] if mux_name else ""
            s.pop("_muxed", None)
        del msg["_mux"]
    return msgs
